#!/bin/sh
# usage: engine/run.sh check <Cxx> [--tier quick|thorough]
#        engine/run.sh replay <path>
ROOT="$(cd "$(dirname "$0")/.." && pwd)"
V="$("$ROOT/engine/env.sh")" || { echo "HARNESS-ERROR: environment setup failed"; exit 3; }
cd "$ROOT"
export PYTHONDONTWRITEBYTECODE=1
export GALLIA_VERIF=1
export PYTHONPATH="${VERIF_SRC:+$VERIF_SRC:}$ROOT${PYTHONPATH:+:$PYTHONPATH}"
exec "$V/bin/python" -m engine.runner "$@"
