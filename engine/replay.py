"""Concrete replay of a solver model against the unmodified gallia (no log stripping, no tracing).
usage: python -m engine.replay <replay.json> [--profile]
exit 1 iff the harness assertion fails with these arguments, 0 if it passes."""
import ast
import importlib.util
import json
import os
import sys
import tempfile
import traceback


def run(path: str, profile: bool = False) -> dict:
    with open(path) as f:
        rp = json.load(f)
    args = ast.literal_eval(rp["args"])
    tmpd = tempfile.mkdtemp(prefix="replay-", dir=os.path.join(os.path.dirname(os.path.abspath(__file__)), "..", ".cache"))
    mpath = os.path.join(tmpd, rp.get("module_name", "vh_replay") + ".py")
    with open(mpath, "w") as f:
        f.write(rp["module_source"])
    name = os.path.splitext(os.path.basename(mpath))[0]
    spec = importlib.util.spec_from_file_location(name, mpath)
    mod = importlib.util.module_from_spec(spec)
    sys.modules[name] = mod
    from engine import hlib

    hlib.TWIN = False
    funcs: set[str] = set()

    def prof(frame, event, arg):
        if event == "call":
            fn = frame.f_code.co_filename
            if "/gallia/" in fn:
                funcs.add(f"{fn.split('/gallia/', 1)[1]}:{frame.f_code.co_qualname}")

    out: dict = {}
    try:
        spec.loader.exec_module(mod)
        fn = getattr(mod, rp["function"])
        if profile:
            sys.setprofile(prof)
        try:
            r = fn(**args)
        finally:
            sys.setprofile(None)
        out["outcome"] = "pass" if r else "fail"
        if not r:
            out["error"] = "postcondition false"
    except hlib.Vacuous:
        out["outcome"] = "vacuous"
    except hlib.PoolExhausted as e:
        out["outcome"] = "pool-exhausted"
        out["error"] = repr(e)
    except Exception as e:  # noqa: BLE001
        out["outcome"] = "fail"
        out["error"] = "".join(traceback.format_exception(type(e), e, e.__traceback__))[-3000:]
    finally:
        try:
            os.remove(mpath)
            os.rmdir(tmpd)
        except OSError:
            pass
    out["functions"] = sorted(funcs)
    return out


if __name__ == "__main__":
    res = run(sys.argv[1], "--profile" in sys.argv)
    print("@@REPLAY " + json.dumps(res))
    if res["outcome"] == "fail":
        print(res.get("error", ""))
        sys.exit(1)
    sys.exit(0)
