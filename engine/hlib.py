"""Helpers shared by harness modules.  Works both under CrossHair tracing (symbolic arguments)
and on the plain interpreter (replay with concrete arguments)."""
import os

TWIN = os.environ.get("VERIF_TWIN") == "1"


class PoolExhausted(Exception):
    """The harness needed more nondeterministic draws than it declared: harness error, never a pass."""


class Vacuous(Exception):
    """Raised to abandon a path whose draw fell outside the documented range (acts as an assume)."""


def done() -> bool:
    """Last statement of every harness.  In twin mode the end of the harness must be reachable."""
    if TWIN:
        raise AssertionError("twin-reached")
    return True


def check(cond, msg="") -> None:
    """msg may be a callable: messages built from symbolic data must be lazy, otherwise rendering them realises
    the data on every path."""
    if not cond:
        if callable(msg):
            try:
                msg = msg()
            except Exception:  # noqa: BLE001
                msg = "property violated"
        raise AssertionError(msg or "property violated")


class Draws:
    """Nondeterminism as explicit harness arguments: ints and bools are consumed in order.
    A draw outside [a,b] abandons the path (assume); since the argument is otherwise unconstrained
    every in-range value is covered by some path."""

    def __init__(self, ints=(), bools=()):
        self.ints = list(ints)
        self.bools = list(bools)
        self.i = 0
        self.b = 0

    def int(self, a: int, b: int) -> int:
        if self.i >= len(self.ints):
            raise PoolExhausted("int")
        v = self.ints[self.i]
        self.i += 1
        if not (a <= v <= b):
            raise Vacuous()
        return v

    def bool(self) -> bool:
        if self.b >= len(self.bools):
            raise PoolExhausted("bool")
        v = self.bools[self.b]
        self.b += 1
        return v


def vacuous_ok(fn):
    """Decorator-free helper: run fn(); a Vacuous path counts as passing (assume semantics)."""
    try:
        return fn()
    except Vacuous:
        return True


def drive(coro):
    """Run a coroutine that never really suspends (all awaits resolve immediately)."""
    try:
        while True:
            y = coro.send(None)
            if y is not None:
                raise RuntimeError(f"real await: {y!r}")
    except StopIteration as e:
        return e.value


def reraise(task):
    """propagate the outcome of a finished main task of a VLoop run; a cancelled main task is a property violation
    (something inside the code under test cancelled the caller), never a BaseException escaping the harness"""
    if task.cancelled():
        raise AssertionError("the operation was cancelled from inside (CancelledError reached the caller)")
    e = task.exception()
    if e is not None:
        if not isinstance(e, Exception):
            raise AssertionError("the operation ended with " + type(e).__name__)
        raise e


def untraced():
    """context manager: run a concrete set-up step (pydantic validation, URI parsing) outside CrossHair's tracing"""
    import contextlib

    try:
        from crosshair.tracers import NoTracing, is_tracing

        if is_tracing():
            return NoTracing()
    except Exception:  # noqa: BLE001
        pass
    return contextlib.nullcontext()


def concrete(x):
    """realise a value completely (strings/dicts built from symbolic parts) before it crosses into compiled code"""
    try:
        from crosshair.core import deep_realize
        from crosshair.tracers import is_tracing

        if is_tracing():
            return deep_realize(x)
    except Exception:  # noqa: BLE001
        pass
    return x
