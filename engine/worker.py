"""Symbolic-execution worker: reads JSON tasks on stdin, runs CrossHair on one harness function per task,
writes one '@@RESULT <json>' line per task."""
import ast
import importlib.util
import inspect
import json
import os
import re
import sys
import time
import traceback

from engine import logstrip

logstrip.install()

import z3  # noqa: E402

from engine import hlib, prelude  # noqa: E402

prelude.install()

from crosshair.core import MessageType, analyze_function, run_checkables  # noqa: E402
from crosshair.options import AnalysisKind, AnalysisOptionSet  # noqa: E402
from crosshair.statespace import StateSpace  # noqa: E402

STATS = {"checks": 0, "solver_s": 0.0, "paths": 0}

_orig_check = z3.Solver.check


def _counting_check(self, *a, **k):
    t = time.perf_counter()
    try:
        return _orig_check(self, *a, **k)
    finally:
        STATS["checks"] += 1
        STATS["solver_s"] += time.perf_counter() - t


z3.Solver.check = _counting_check

_orig_ss_init = StateSpace.__init__


def _counting_ss_init(self, *a, **k):
    STATS["paths"] += 1
    return _orig_ss_init(self, *a, **k)


StateSpace.__init__ = _counting_ss_init

_MODS: dict[str, object] = {}


def load_module(path: str):
    name = "vh_" + re.sub(r"\W", "_", os.path.splitext(os.path.basename(path))[0])
    key = path
    if key in _MODS:
        return _MODS[key]
    spec = importlib.util.spec_from_file_location(name, path)
    mod = importlib.util.module_from_spec(spec)
    sys.modules[name] = mod
    spec.loader.exec_module(mod)
    _MODS[key] = mod
    return mod


_WRAP_N = [0]


def make_wrapper(mod, fn, exclude, scratch, helpers=()):
    """A source-backed wrapper with the same signature and preconditions plus 'not region' for every
    known-finding region, so the rest of the obligation is still decided."""
    _WRAP_N[0] += 1
    sig = inspect.signature(fn)
    doc = inspect.getdoc(fn) or ""
    pres = [ln.strip() for ln in doc.splitlines() if ln.strip().startswith("pre:")]
    posts = [ln.strip() for ln in doc.splitlines() if ln.strip().startswith("post:")]
    names = list(sig.parameters)
    wname = f"{fn.__name__}__x{_WRAP_N[0]}"
    lines = [f"from {mod.__name__} import {fn.__name__} as _inner"] + [f"from {h} import *" for h in helpers] + ["", f"def {wname}{sig}:", '    """']
    lines += [f"    {p}" for p in pres]
    lines += [f"    pre: not ({r})" for r in exclude]
    lines += [f"    {p}" for p in posts]
    lines += ['    """', f"    return _inner({', '.join(names)})", ""]
    path = os.path.join(scratch, f"{wname}.py")
    with open(path, "w") as f:
        f.write("\n".join(lines))
    wmod = load_module(path)
    return getattr(wmod, wname)


_CALL_RE = re.compile(r"when calling (\w+)\((.*)\)(?: \(which returns .*\))?\s*$", re.S)


def parse_args(message: str, fn):
    m = _CALL_RE.search(message)
    if not m:
        return None
    txt = m.group(2)
    if "patch_to_return" in message:
        return None
    try:
        node = ast.parse(f"_f({txt})", mode="eval").body
        env: dict = {}

        class _Sub(ast.NodeTransformer):  # CrossHair prints aliased arguments as  f(v1:=b'..', v1)
            def visit_NamedExpr(self, n):  # noqa: N802
                val = self.visit(n.value)
                env[n.target.id] = val
                return val

            def visit_Name(self, n):  # noqa: N802
                if n.id in env:
                    return env[n.id]
                return n

        node = _Sub().visit(node)
        args = [ast.literal_eval(a) for a in node.args]
        kwargs = {k.arg: ast.literal_eval(k.value) for k in node.keywords}
    except Exception:
        return None
    names = list(inspect.signature(fn).parameters)
    out = dict(zip(names, args))
    out.update(kwargs)
    return out


def analyze(fn, cap):
    for k in STATS:
        STATS[k] = 0
    opts = AnalysisOptionSet(
        per_condition_timeout=cap,
        per_path_timeout=max(cap, 30.0),
        report_all=True,
        analysis_kind=[AnalysisKind.PEP316],
    )
    t0 = time.perf_counter()
    checkables = analyze_function(fn, opts)
    if not checkables:
        return {"status": "harness-error", "detail": "no checkable produced"}
    msgs = list(run_checkables(checkables))
    wall = time.perf_counter() - t0
    res = {"wall_s": round(wall, 3), "paths": STATS["paths"], "solver_checks": STATS["checks"],
           "solver_s": round(STATS["solver_s"], 3)}
    states = [m.state for m in msgs]
    bad = [m for m in msgs if m.state in (MessageType.POST_FAIL, MessageType.EXEC_ERR, MessageType.POST_ERR)]
    if bad:
        m = bad[0]
        a = parse_args(m.message, fn)
        res.update(status="refuted", message=m.message, args=None if a is None else repr(a))
    elif states and all(s == MessageType.CONFIRMED for s in states):
        res.update(status="discharged")
    elif any(s in (MessageType.SYNTAX_ERR, MessageType.IMPORT_ERR) for s in states):
        res.update(status="harness-error", detail="; ".join(m.message for m in msgs))
    else:
        res.update(status="inconclusive", detail="; ".join(f"{m.state.name}: {m.message}" for m in msgs) or "no verdict")
    return res


def run_task(task):
    scratch = task["scratch"]
    prelude.set_opaque(bool(task.get("opaque")))
    mod = load_module(task["module_path"])
    fn = getattr(mod, task["function"])
    hlib.TWIN = False
    target = make_wrapper(mod, fn, task.get("exclude") or [], scratch, task.get("helpers") or []) if task.get("exclude") else fn
    out = {"id": task["id"]}
    if task.get("twin_only"):
        main = {"status": "skipped"}
    else:
        main = analyze(target, task["cap"])
    out["main"] = main
    if task.get("twin", True) and main["status"] in ("discharged", "skipped"):
        hlib.TWIN = True
        try:
            tw = analyze(target, min(task["cap"], task.get("twin_cap", 60)))
        finally:
            hlib.TWIN = False
        ok = tw.get("status") == "refuted" and "twin-reached" in tw.get("message", "")
        out["twin"] = {"reached": ok, "args": tw.get("args"), "wall_s": tw.get("wall_s"), "paths": tw.get("paths"),
                       "solver_checks": tw.get("solver_checks"), "solver_s": tw.get("solver_s"),
                       "detail": None if (ok and tw.get("args")) else (tw.get("message") or tw.get("detail") or tw.get("status"))}
    return out


def main():
    for line in sys.stdin:
        line = line.strip()
        if not line:
            continue
        task = json.loads(line)
        try:
            out = run_task(task)
        except BaseException as e:  # noqa: BLE001
            out = {"id": task.get("id"), "main": {"status": "harness-error", "detail": "".join(
                traceback.format_exception(type(e), e, e.__traceback__))[-2000:]}}
        sys.stdout.write("@@RESULT " + json.dumps(out, default=repr) + "\n")
        sys.stdout.flush()


if __name__ == "__main__":
    main()
