"""Regenerates /verif/MANIFEST.json from the table below (keeps it schema-valid)."""
import json
import os

ROOT = os.path.dirname(os.path.dirname(os.path.abspath(__file__)))

CLAIMED = {
    "C01": dict(
        text="Bounded symbolic execution (CrossHair + z3) of the real request classes: for every request kind found by introspection and every "
             "shape in the bound (record lengths, group counts, address/size widths) all integer fields, record bytes and the suppress bit are "
             "symbolic; on every path the PDU equals the ISO 14229-1 reference encoding, parse_dynamic and from_pdu return a typed request with "
             "equal fields and bytes, and every out-of-range field is refused.",
        note="Trusted: CrossHair's models of bytes/struct, z3, the reference layouts in spec/requests.py. int.to_bytes is modelled relationally "
             "(fresh byte variables, sum constraint) and int.bit_length is case-split; log calls stripped; symbolic ints rendered opaquely in "
             "exception messages. Longer records / more groups than the bound are outside the claim.",
        ref="§4 C01", technique="symbolic execution of the real codec with z3 (CrossHair), differential against an ISO 14229-1 reference encoder",
    ),
    "C03": dict(
        text="Bounded symbolic execution (CrossHair + z3) of the real helpers.parse_pdu with request and reply bytes symbolic: for every modelled "
             "service (request templates with symbolic echoed identifiers), truncated and unmodelled requests, and replies of the own service, "
             "negative responses and foreign services of every length in the bound, the outcome class (accepted / RequestResponseMismatch / "
             "MalformedResponse) on every path is one the statement admits per the ISO echo rules; the response-code to exception mapping is total.",
        note="Trusted: CrossHair, z3, the echo rules in spec/matching.py and layouts in spec/responses.py. Parser-steering header bytes of the request "
             "(sub-function of multi-class services, format identifiers) are concrete per obligation; which of mismatch/malformed is reported when both "
             "apply is not asserted.",
        ref="§4 C03", technique="symbolic execution of the real matcher with z3 (CrossHair), differential against ISO echo rules",
    ),
    "C04": dict(
        text="Bounded symbolic execution (CrossHair + z3) of the real UDSClient.request_unsafe coroutine against a scripted transport: every "
             "event script of the stated length over the 9-letter fault/reply alphabet, the client's and the per-request retry budgets symbolic; "
             "on every path the number of transmissions and reconnects, the outcome class and the returned reply equal those of a reference state "
             "machine, and loop time stays within the back-off bound; long pending runs, slow pendings, endless pendings and pending-then-silence "
             "are separate obligations with symbolic run lengths.",
        note="Trusted: CrossHair, z3, spec/client_model.py. Transport is a stub (one event per call), asyncio.sleep advances a virtual clock, reply bytes "
             "are concrete per letter. One recorded known finding (connection loss while polling after responsePending) is excluded by region.",
        ref="§4 C04", technique="symbolic execution of the real retry/pending state machine with z3 (CrossHair) against a reference model",
    ),
    "C13": dict(
        text="Bounded symbolic execution (CrossHair + z3) of the real UDSServerTransport.handle_request / UDSServer.respond / RandomUDSServer handlers: "
             "one step from a valid state over a two-session model whose facts about the service under test are symbolic (lazily evaluated), request "
             "bytes symbolic, every random draw symbolic; on every path the reply equals what the ISO priority chain of the statement prescribes "
             "(or is handler-defined), suppression and state changes follow the statement, and with one switch off no exception is raised.",
        note="Trusted: CrossHair, z3, spec/iso_server_rules.py. RNG, clock and stateful_rng are stubs; sub-function value fixed per obligation for "
             "0x19/0x2C/0x31; ReadDTCInformation handler draws come from 3-element sets. Security seed invalidation by interleaved requests is not "
             "an ISO rule and is not asserted.",
        ref="§4 C13", technique="symbolic execution of the real virtual-ECU step function with z3 (CrossHair) against an ISO rule oracle",
    ),
    "C14": dict(
        text="Bounded symbolic execution (CrossHair + z3) of the real server step (handle_request) composed with the real client matcher "
             "(helpers.parse_pdu): request bytes, model facts, start state and every random draw symbolic; on every path the server does not raise, "
             "stays in an offered session, and its reply is accepted by the client both for the raw and the typed form of the request; short "
             "histories (session change, seed, seed+key, reset, then a symbolic request) and the concrete model of a real seed are included.",
        note="Trusted: CrossHair, z3. RNG/clock stubs as in C13 (payloads <= 2 bytes); TCP loop and ISO-TP outside; bounded request lengths and histories.",
        ref="§4 C14", technique="symbolic execution of server step + client matcher with z3 (CrossHair)",
    ),
    "C16": dict(
        text="PARTIAL claim. Bounded symbolic execution (CrossHair + z3) of the real RandomUDSServer.randomize(): every rng.random() comparison is a "
             "symbolic boolean and every choice a symbolic index, so all outcomes of all draws are explored for <= 3 sessions / <= 3 optional services; "
             "mandatory sessions and services present, every offered session reachable from and returning to the default session. Two instances with the "
             "same seed driven by the same symbolic request (RNG stub memoised on its seeding arguments by solver-checked equality) give byte-identical "
             "replies and equal states except fresh security seeds; global random / hash() / id() are trapped on every path; stateful_rng's seeding "
             "is a function of (seed, session, args).",
        note="NOT claimed: cross-process identity (PYTHONHASHSEED, import order, set iteration order) - a property of CPython runs, not of a path "
             "condition. Trusted: CrossHair, z3; RNG stub, parameter objects concrete, p_sub_function in {0,1}.",
        ref="§4 C16", technique="symbolic execution of the real model generator and handlers with z3 (CrossHair), nondeterministic RNG stub",
    ),
    "C19": dict(
        text="Bounded symbolic execution (CrossHair + z3) of the real LinesTransportMixin.write/read (tcp-lines, unix-lines) and the real "
             "TCPUDSServerTransport.handle_client on a virtual-time event loop with fake streams: message bytes symbolic (all 256 values per position), "
             "the wire stream cut at a symbolic offset and delivered at symbolic instants, the first read with a symbolic deadline; the solver decides all "
             "orderings of arrivals and deadlines. Every message is delivered intact, in order, one per read; a timed-out read consumed nothing; EOF is distinguishable.",
        note="Trusted: CrossHair, z3, engine/vloop.py (virtual-time asyncio loop), asyncio's StreamReader. Sockets and the kernel are outside. One recorded "
             "known finding (EOF inside a line yields a truncated message).",
        ref="§4 C19", technique="symbolic execution with symbolic time on a virtual event loop (CrossHair + z3)", engine="vloop",
    ),
    "C05": dict(
        text="Bounded symbolic execution (CrossHair + z3) of the real UDSClient.request/_request/request_unsafe and the real ECU tester-present worker on a "
             "virtual-time event loop: 2-3 concurrent callers whose start instants, reply delays (including replies arriving after the caller's timeout), "
             "reconnect time and cancellation instant are symbolic microsecond values, so the solver decides every arrival order; on every schedule no request "
             "is transmitted while another caller's exchange (incl. pending extension and retry) is in flight, every caller gets its own reply or an error, "
             "and the loop going idle implies all callers completed.",
        note="Trusted: CrossHair, z3, engine/vloop.py. Transport is a timing-aware simulation; in the quick tier some instants are fixed per obligation (stated in the "
             "evidence). OS threads and other loops are outside.",
        ref="§4 C05", technique="symbolic execution with symbolic time on a virtual event loop (CrossHair + z3)", engine="vloop",
    ),
    "C07": dict(
        text="Bounded symbolic execution (CrossHair + z3) of the real HSFZConnection/HSFZTransport on a virtual-time event loop against a scripted gateway: "
             "frame instants, the cut offset of one frame (or of the whole coalesced stream) and its gap, and the ack timeout are symbolic, the solver decides "
             "all orderings relative to the ack and read deadlines. Checked against a reference: write completes iff a matching ack (control word, address pair, "
             "first five bytes) arrives in time else BrokenPipeError at the ack timeout and the connection is closed; reads deliver exactly the ECU->tester data "
             "payloads in order; alive checks are answered at the instant they are complete; error control words surface as connection errors.",
        note="Trusted: CrossHair, z3, engine/vloop.py. Frame kinds are concrete per obligation (<= 3 frames); kernel TCP outside. One recorded known finding "
             "(re-queue reorders data frames).",
        ref="§4 C07", technique="symbolic execution with symbolic time on a virtual event loop (CrossHair + z3)", engine="vloop",
    ),
    "C06": dict(
        text="Bounded symbolic execution (CrossHair + z3) of the real DoIPTransport._connect / DoIPConnection / DoIPTransport on a virtual-time event loop "
             "against a scripted gateway. Routing activation: source address, activation type (all 256), response code (all 256), protocol version and "
             "the response instant symbolic: the request bytes carry exactly the configured values and the connection is usable iff the code is 0x10 in time. "
             "Protocol: frame instants, cut offsets (per frame and of the whole coalesced stream) and gaps symbolic; write completes iff a matching "
             "positive ack (or TargetUnreachable) arrives within 2 s, else connection error at 2 s; reads deliver exactly the target->source diagnostic "
             "payloads in order; foreign frames stay queued; alive checks answered within 0.5 s in every client phase; generic header codec on symbolic bytes.",
        note="Trusted: CrossHair, z3, engine/vloop.py. Frame kinds concrete per obligation (<= 3 frames), kernel TCP / TLS / UDP discovery outside. Two recorded "
             "known findings (re-queue reorders; skipped frames lost when a read times out), two fixed defects.",
        ref="§4 C06", technique="symbolic execution with symbolic time on a virtual event loop (CrossHair + z3)", engine="vloop",
    ),
    "C08": dict(
        text="Bounded symbolic execution (CrossHair + z3) of the real tcp-lines, unix-lines, DoIP and HSFZ transports on a virtual-time loop: the peer delivers a "
             "symbolic prefix of its stream (every byte offset) at a symbolic instant and then closes, resets or goes silent at a symbolic instant, with a symbolic "
             "caller timeout or none. On every schedule the exchange ends (loop idle implies task done) with the reply, a timeout, a connection error or "
             "end-of-stream within caller timeout + acknowledgement time, returned data is exactly a complete frame the peer sent, close() twice afterwards "
             "does not raise; with the real UDSClient(max_retry=1) on tcp-lines the reply is obtained over exactly one reconnect when the peer accepts again.",
        note="Trusted: CrossHair, z3, engine/vloop.py, fake streams instead of sockets (kernel RST/FIN behaviour outside). Three recorded known findings "
             "(EOF inside a line; blocked read never woken on loss for DoIP/HSFZ), two fixed defects (close() after reset).",
        ref="§4 C08", technique="symbolic execution with symbolic time on a virtual event loop (CrossHair + z3)", engine="vloop",
    ),
    "C09": dict(
        text="Bounded symbolic execution (CrossHair + z3) of the real SessionsScanner.main/_recover_stack against an ECU whose session-transition "
             "relation is symbolic (every edge among 3-4 sessions a symbolic boolean, refusal codes symbolic): for every graph in the bound the reported "
             "set equals BFS reachability within the depth limit, every reported path is a real path of length <= depth, the scan terminates, and skipped "
             "sessions are never requested.",
        note="Trusted: CrossHair, z3, spec/session_model.py. ECU is a graph stub using the real response classes; scanner config is a plain namespace; every "
             "session can return to the default session (documented precondition). --reset / --with-hooks outside.",
        ref="§4 C09", technique="symbolic execution of the real scanner over symbolic transition graphs (CrossHair + z3)",
    ),
    "C10": dict(
        text="Bounded symbolic execution (CrossHair + z3) of the real ServicesScanner.main/perform_scan and ScanIdentifiers.main/perform_scan against a stub "
             "ECU whose answers are symbolic: per probed service id the 'implemented' flag, not-supported code, the outcome of each of the four probe lengths "
             "(length error, other negative code incl. sub-function codes, positive, timeout, illegal reply) and 'session change succeeds' are symbolic; the "
             "reported (session, service) set equals the reference classification, every id is probed with the documented PDUs in the session claimed, "
             "skipped ids are never probed, response ids only when asked. Identifier scan: start/end symbolic in a window, outcome and skip flag of one id "
             "symbolic: the probed PDUs (sub-function byte for 0x31, 7-bit clamp for 0x27, payload) and the positive/abnormal/timeout counters equal the reference.",
        note="Trusted: CrossHair, z3. Compositional: one probed id per obligation (the loop carries only the result set from id to id); other ids excluded through the "
             "real skip option; scanner config objects are plain namespaces; check-session recovery and --reset outside; skip-map parsing is C20's subject.",
        ref="§4 C10", technique="symbolic execution of the real scanners over symbolic ECU answers (CrossHair + z3)",
    ),
    "C11": dict(
        text="Bounded symbolic execution (CrossHair + z3) of (i) the real ECU._request with the outcome of the underlying exchange, logging switches, tags, client "
             "state and database failure symbolic: exactly one row per request iff implicit logging, request bytes exact, reply object or NULL, exception, send <= receive, "
             "the state BEFORE the request, emphasised iff ANALYZE; (ii) the real DBHandler.insert_scan_result for every typed response id on symbolic reply bytes: "
             "the row is built (JSON-encodable by type) and carries exactly the request/reply bytes; (iii) the real writer task and disconnect() on a virtual-time loop "
             "with symbolic producer/disconnect instants, execute latency and a transient OperationalError: every row handed over before disconnect() is written exactly once before close.",
        note="Trusted: CrossHair, z3, engine/vloop.py. sqlite/aiosqlite, schema constraints, hexlify and json text rendering are behind stubs (outside the claim). Rows handed "
             "over while disconnect() is already running are unconstrained. One fixed defect.",
        ref="§4 C11", technique="symbolic execution of logging path, row construction and writer task (CrossHair + z3, virtual-time loop)", engine="vloop",
    ),
    "C12": dict(
        text="NARROW claim. Bounded symbolic execution (CrossHair + z3): (i) for every typed response id on symbolic reply bytes and every symbolic (session, level) the "
             "client's ECU.update_state and the replaying server's update_state yield equal states (the presupposition of the property); (ii) the real "
             "DBUDSServer.respond_after_default against a scripted connection with symbolic selection flags, state, cursor and row: the query parameters are exactly "
             "(ecu?, state values, properties, request hex, cursor), the cursor advances to the served row, a NULL reply resets the state and stays silent, the "
             "wrap-around query is issued iff the first returned nothing, the recorded reply bytes are replayed exactly.",
        note="NOT claimed: which row sqlite selects (JSON state match, ordering, joins over runs/ECUs) - evaluated by compiled sqlite3, cannot be encoded; end-to-end "
             "replay fidelity is therefore outside. One recorded known finding (client tracks the session from 62 f1 86 replies, the server does not).",
        ref="§4 C12", technique="symbolic execution of state tracking and replay cursor logic (CrossHair + z3)",
    ),
    "C17": dict(
        text="PARTIAL claim. Bounded symbolic execution (CrossHair + z3) of the real hr entry point (_main) and PenlogReader.records/__len__ on an in-memory stand-in "
             "for the mmap'ed log: for logs of 0..4 records with symbolic priorities, symbolic threshold, symbolic line count and offset, forward / head / tail / reverse "
             "reading yields exactly the corresponding slice of the priority-filtered sequence (each selected record once, in order, also when n exceeds the log); "
             "level<->priority mapping is a bijection; records written by the real formatter and emit framing are read back with the same text, level, tags, timestamp.",
        note="NOT claimed: zstd/gzip containers, real mmap, stdin/FIFO, arbitrary message text (8 concrete texts incl. newline, quotes, NUL, non-BMP, lone surrogate, 10 kB; "
             "the write/read round trip is a solver-driven case split with concrete execution because json/datetime are C code). Two fixed defects.",
        ref="§4 C17", technique="symbolic execution of the reader navigation (CrossHair + z3); case-split concrete round trip",
    ),
    "C20": dict(
        text="Bounded solver-driven checking (CrossHair + z3) of range expressions (unravel, unravel_2d, both input forms of _process_ranges) over templates whose number "
             "tokens stand for integers chosen by the solver, of integer notations (two symbolic digits in decimal, 0x, 0o, 0b, both cases), of "
             "split_host_port(join_host_port(h, p)) and of TargetURI.from_parts -> text -> TargetURI -> qs_flat -> transport config for hsfz/doip/isotp with ports, "
             "addresses and an integer-valued parameter in windows: every combination inside the windows is decided against a reference semantics.",
        note="The string algebra (urllib, str.split, pydantic) runs concretely per case: the solver enumerates the bounded value space exhaustively (case split), it does not "
             "reason about text symbolically. Arbitrary host text and values outside the windows are outside the claim. Three fixed defects.",
        ref="§4 C20", technique="solver-driven exhaustive case split (CrossHair + z3) against reference range/URI semantics",
    ),
    "C15": dict(
        text="CONTROL-FLOW claim. Bounded symbolic execution (CrossHair + z3) of the real BaseCommand.entry_point, AsyncScript.run, Scanner.teardown, run_hook and "
             "_db_insert/_db_finish_run_meta with a symbolic fault plan (exit kind at setup / main / teardown incl. sys.exit(n), sys.exit(text), connection / UDS errors, "
             "other exceptions, Ctrl-C) and symbolic resource switches (artifacts, database, lock, hooks, failing pre / post hook): on every path the returned exit code "
             "follows the documented mapping, run_meta and META.json carry it with an end time, the database run entry is completed exactly once with it before the "
             "database is closed, log handlers are removed, the lock is released, hooks run exactly once each and a failing hook changes nothing.",
        note="Behind recording stubs and therefore outside the claim: real files, zstd stream integrity, kernel flock, signals, the hook processes, sqlite, re-running a stored "
             "config (rerun / C18). gallia.command.base is executed WITHOUT log stripping for this property. Two fixed defects.",
        ref="§4 C15", technique="symbolic execution of the command lifecycle with a symbolic fault plan (CrossHair + z3)",
    ),
    "C02": dict(
        text="Bounded symbolic execution (CrossHair + z3) of the real UDSResponse.parse_dynamic / from_pdu / pdu code: for every first byte "
             "0x00-0xFF and every total length in the stated bound, with all remaining bytes symbolic, every path is explored and the "
             "re-serialisation, ISO field-position and format-rule assertions hold on all of them.",
        note="Trusted: CrossHair's models of bytes/struct/int.from_bytes, z3, the reference layouts in spec/responses.py. Log calls are stripped and "
             "symbolic ints are rendered opaquely in exception messages. Lengths beyond the bound are outside the claim.",
        ref="§4 C02", technique="symbolic execution of the real codec with z3 (CrossHair), differential against an ISO 14229-1 reference decoder",
    ),
}

NOT_APPLICABLE = {
    "C18": "settings precedence and config round trip are decided inside pydantic-core (compiled) and argparse over process-level inputs; "
           "symbolic values cannot cross that boundary, a solver would only pick among concrete presence combinations (enumeration in disguise)",
}

# thorough tiers that were run end-to-end on the unchanged tree and exited 0 (DESIGN.md 8.4); the others exist in the code
# (engine/run.sh check <id> --tier thorough) but are not registered until they have been sized and verified
THOROUGH_OK = {"C01", "C02", "C04", "C09", "C12", "C17", "C20"}

PENDING_REASON = "check not built yet in this session (solver-based harness planned in DESIGN.md); not claimed until it runs"


def main():
    props = [json.loads(l)["id"] for l in open(os.path.join(ROOT, "properties.jsonl"))]
    checks = []
    for pid in props:
        if pid not in CLAIMED:
            continue
        c = CLAIMED[pid]
        entry = {"thorough_cmd": f"engine/run.sh check {pid} --tier thorough"} if pid in THOROUGH_OK else {}
        checks.append({
            **entry,
            "property_id": pid,
            "quick_cmd": f"engine/run.sh check {pid} --tier quick",
            "evidence_file": f"evidence/{pid}.json",
            "replay_cmd_template": "engine/run.sh replay {path}",
            "engine": c.get("engine", "crosshair-harness"),
            "level_claimed": {"category": "model_checking", "text": c["text"], "design_ref": c["ref"]},
            "level_note": c["note"],
            "technique": c["technique"],
        })
    na = []
    for pid in props:
        if pid in CLAIMED:
            continue
        na.append({"property_id": pid, "reason": NOT_APPLICABLE.get(pid, PENDING_REASON)})
    man = {
        "version": 1,
        "setup_cmd": "engine/env.sh",
        "hooks": {
            "guard": "GALLIA_VERIF",
            "enable": "no source hooks: all stubbing is done from the harness process by patching module attributes (GALLIA_VERIF=1 is exported by engine/run.sh only for documentation)",
            "baseline_off_cmd": "cd /repo && /venv/bin/python -m pytest -ra -q -p no:cacheprovider --timeout=900 --continue-on-collection-errors tests/pytest",
            "source_commits": [],
            "add_only": True,
        },
        "engines": [
            {"name": "vloop", "path": "engine/vloop.py", "serves_properties": sorted(p for p, c in CLAIMED.items() if c.get("engine") == "vloop"),
             "kind_free_text": "virtual-time asyncio event loop whose clock is a (symbolic) integer: real asyncio primitives and gallia transports run on it, "
                               "event orderings are decided by z3 through CrossHair"},
            {"name": "crosshair-harness", "path": "engine/", "serves_properties": sorted(CLAIMED),
             "kind_free_text": "CrossHair 0.0.110 symbolic execution (z3 5.1) of the real gallia code, harnesses generated by introspection of /repo's current source, "
                               "16-process pool, reachability twins, concrete replay of every solver model"},
        ],
        "checks": checks,
        "not_applicable": na,
        "notes": "Exit codes of every check: 0 all obligations discharged; 1 VIOLATION (replayed on the unmodified code); 2 INCONCLUSIVE (cap/timeout/vacuous twin); 3 harness error. "
                 "Known findings live in known_findings.json.",
    }
    with open(os.path.join(ROOT, "MANIFEST.json"), "w") as f:
        json.dump(man, f, indent=1)


if __name__ == "__main__":
    main()
