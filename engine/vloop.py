"""Virtual-time event loop (engine E3).  Time is an exact value in integer microseconds whose payload may be a symbolic
int: the loop picks the next timer by comparing times, so under CrossHair the *solver decides event orderings* and all
schedules = all orderings consistent with some assignment of the symbolic instants.  Real asyncio primitives (Lock, Queue,
Task, wait_for/timeout, StreamReader/Writer) run on it unchanged.  Works identically with concrete ints (replay)."""
import asyncio
from asyncio import events, futures, tasks

US = 1_000_000

# StreamWriter.__del__ only emits a ResourceWarning; run by the garbage collector at arbitrary points under tracing it
# renders reprs of symbolic state and makes the exploration non-deterministic.
asyncio.StreamWriter.__del__ = lambda self: None  # type: ignore[method-assign]


def _us(x):
    if isinstance(x, VTime):
        return x.us
    if isinstance(x, float):
        return int(round(x * US))
    if isinstance(x, int):
        return x * US
    raise TypeError(type(x))


class VTime:
    __slots__ = ("us",)

    def __init__(self, us):
        self.us = us

    def __add__(self, o):
        return VTime(self.us + _us(o))

    __radd__ = __add__

    def __sub__(self, o):
        return VTime(self.us - _us(o))

    def __rsub__(self, o):
        return VTime(_us(o) - self.us)

    def __lt__(self, o):
        return self.us < _us(o)

    def __le__(self, o):
        return self.us <= _us(o)

    def __gt__(self, o):
        return self.us > _us(o)

    def __ge__(self, o):
        return self.us >= _us(o)

    def __eq__(self, o):
        return self.us == _us(o)

    __hash__ = None

    def __mul__(self, k):
        return VTime(self.us * k)

    def __float__(self):
        return self.us / US

    def __repr__(self):
        return f"VTime({self.us}us)"


def ms(n):
    return VTime(n * 1000)


class Handle:
    __slots__ = ("cb", "args", "ctx", "when", "_c", "seq")

    def __init__(self, cb, args, ctx, when=None, seq=0):
        self.cb, self.args, self.ctx, self.when, self._c, self.seq = cb, args, ctx, when, False, seq

    def cancel(self):
        self._c = True

    def cancelled(self):
        return self._c

    def run(self):
        if self.ctx is not None:
            self.ctx.run(self.cb, *self.args)
        else:
            self.cb(*self.args)


class Livelock(RuntimeError):
    pass


class VLoop(asyncio.AbstractEventLoop):
    def __init__(self):
        self.now = VTime(0)
        self.ready = []
        self.timers = []
        self.errors = []
        self._seq = 0
        self.steps = 0

    # -- minimal AbstractEventLoop surface used by asyncio primitives
    def time(self):
        return self.now

    def get_debug(self):
        return False

    def is_running(self):
        return True

    def is_closed(self):
        return False

    def create_future(self):
        return futures.Future(loop=self)

    def create_task(self, coro, *, name=None, context=None):
        return tasks.Task(coro, loop=self, name=name, context=context)

    def call_soon(self, cb, *args, context=None):
        h = Handle(cb, args, context)
        self.ready.append(h)
        return h

    call_soon_threadsafe = call_soon

    def call_at(self, when, cb, *args, context=None):
        if not isinstance(when, VTime):
            when = VTime(_us(when))
        self._seq += 1
        h = Handle(cb, args, context, when, self._seq)
        self.timers.append(h)
        return h

    def call_later(self, delay, cb, *args, context=None):
        return self.call_at(self.now + delay, cb, *args, context=context)

    def call_exception_handler(self, ctx):
        self.errors.append(ctx)

    def default_exception_handler(self, ctx):
        self.errors.append(ctx)

    # -- driving
    def run_until_idle(self, max_steps=20000, until=None):
        while True:
            while self.ready:
                h = self.ready.pop(0)
                if not h.cancelled():
                    h.run()
                self.steps += 1
                if self.steps > max_steps:
                    raise Livelock("more than %d loop steps" % max_steps)
            self.timers = [t for t in self.timers if not t.cancelled()]
            if not self.timers:
                return
            best = self.timers[0]
            for t in self.timers[1:]:
                if t.when < best.when:  # solver-decided ordering when instants are symbolic; FIFO among equal instants
                    best = t
            if until is not None and best.when > until:
                return
            self.timers.remove(best)
            if best.when > self.now:
                self.now = best.when
            self.ready.append(best)

    def run(self, coro, max_steps=20000):
        """run the loop with `coro` as main task until nothing is left to do; returns the task (may be not done = blocked forever)"""
        old = events._get_running_loop()
        events._set_running_loop(self)
        try:
            t = self.create_task(coro)
            self.run_until_idle(max_steps)
            return t
        finally:
            events._set_running_loop(old)

    def activate(self):
        events._set_running_loop(self)

    def deactivate(self):
        events._set_running_loop(None)


class FakeTransport(asyncio.Transport):
    """write side: records (time_us, bytes); read side is the StreamReader fed by the scripted peer"""

    def __init__(self, loop, protocol):
        super().__init__()
        self.loop, self.protocol = loop, protocol
        self.written = []
        self.closing = False
        self.closed_at = None
        self.on_write = None
        self.fail_writes = None  # exception instance raised by write() once the peer is gone

    def write(self, data):
        if self.closing:
            return
        if self.fail_writes is not None:
            self.loop.call_soon(self.protocol.connection_lost, self.fail_writes)
            self.closing = True
            return
        data = bytes(data)
        self.written.append((self.loop.now.us, data))
        if self.on_write:
            self.on_write(data)

    def is_closing(self):
        return self.closing

    def close(self):
        if not self.closing:
            self.closing = True
            self.closed_at = self.loop.now.us
            self.loop.call_soon(self.protocol.connection_lost, None)

    def abort(self):
        self.close()

    def get_extra_info(self, name, default=None):
        return default

    def get_write_buffer_size(self):
        return 0

    def can_write_eof(self):
        return False

    def all_written(self):
        return b"".join(d for _, d in self.written)


def make_streams(loop):
    reader = asyncio.StreamReader(loop=loop)
    proto = asyncio.StreamReaderProtocol(reader, loop=loop)
    tr = FakeTransport(loop, proto)
    proto.connection_made(tr)
    writer = asyncio.StreamWriter(tr, proto, reader, loop)
    return reader, writer, tr, proto


class Peer:
    """Scripted peer: ONE byte stream delivered in chunks at given instants (a TCP stream cannot interleave the bytes of two
    frames; segments can be cut anywhere)."""

    def __init__(self, loop, reader, proto):
        self.loop, self.reader, self.proto = loop, reader, proto

    def _feed(self, data):
        if not self.reader._eof:  # bytes arriving after the local side closed are dropped by the kernel
            self.reader.feed_data(data)

    def feed_at(self, when, data):
        if len(data) > 0:
            self.loop.call_at(when, self._feed, data)

    def eof_at(self, when):
        self.loop.call_at(when, self._eof)

    def _eof(self):
        if not self.reader._eof:
            self.proto.eof_received()

    def reset_at(self, when, exc=None):
        self.loop.call_at(when, self.proto.connection_lost, exc or ConnectionResetError("scripted reset"))
