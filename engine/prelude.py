"""CrossHair-side stubs that every symbolic worker installs (each one is part of the claim and is
listed in the evidence)."""
import builtins

import crosshair.core as _cc
import crosshair.core_and_libs  # noqa: F401  (registers the library models)
from crosshair.libimpl.builtinslib import SymbolicInt
from crosshair.tracers import NoTracing

_orig_hex = builtins.hex
_state = {"opaque": False}
_real_format = SymbolicInt.__format__


def _hex(x):
    if _state["opaque"]:
        with NoTracing():
            sym = isinstance(x, SymbolicInt)
        if sym:
            return "0x??"
    return _orig_hex(x)


def _format(self, fmt):
    if _state["opaque"]:
        return "??"
    return _real_format(self, fmt)


_ch_format = _cc._PATCH_REGISTRATIONS.get(builtins.format)


def _builtin_format(obj, format_spec=""):
    if _state["opaque"]:
        with NoTracing():
            sym = isinstance(obj, SymbolicInt)
        if sym:
            return "??"
    if _ch_format is not None:
        return _ch_format(obj, format_spec)
    return _orig_format(obj, format_spec)


_orig_format = builtins.format


_real_bit_length = SymbolicInt.bit_length


def _bit_length(self):
    """Case-split: the symbolic result of bit_length() is realised (finitely many values), so that
    float arithmetic on it (ceil(n / 8)) runs on concrete numbers.  Sound: every value is explored."""
    from crosshair.core import realize

    return realize(_real_bit_length(self))


_real_to_bytes = SymbolicInt.to_bytes


def _to_bytes(self, length=1, byteorder="big", *, signed=False):
    """Relational model of int.to_bytes for unsigned values: fresh byte variables b_i in 0..255 with
    sum(b_i * 256**k) == x are introduced instead of CrossHair's div/mod chain.  The decomposition exists and is
    unique whenever the range check passes, so the added constraint neither removes nor adds behaviours;
    it keeps the path condition in linear integer arithmetic (DESIGN.md E2 lesson)."""
    import z3
    from crosshair.core import realize
    from crosshair.libimpl.builtinslib import SymbolicBytes
    from crosshair.statespace import context_statespace

    if signed or not isinstance(length, int) or not isinstance(byteorder, str):
        return _real_to_bytes(self, length, byteorder, signed=signed)
    length = realize(length)
    byteorder = realize(byteorder)
    if length < 2 or byteorder not in ("big", "little"):
        return _real_to_bytes(self, length, byteorder, signed=signed)
    if self < 0 or self >= 256**length:
        raise OverflowError
    with NoTracing():
        space = context_statespace()
        vs = [z3.Int("tb" + space.uniq()) for _ in range(length)]
        total = z3.Sum([v * (256 ** (length - 1 - i)) for i, v in enumerate(vs)])
        space.add(z3.And(*[z3.And(v >= 0, v <= 255) for v in vs], total == self.var))
        arr = [SymbolicInt(v) for v in vs]
        if byteorder == "little":
            arr.reverse()
        return SymbolicBytes(arr)


def install() -> None:
    SymbolicInt.bit_length = _bit_length
    SymbolicInt.to_bytes = _to_bytes
    _cc._PATCH_REGISTRATIONS[builtins.hex] = _hex
    _cc._PATCH_REGISTRATIONS[builtins.format] = _builtin_format
    SymbolicInt.__format__ = _format


def set_opaque(flag: bool) -> None:
    """Opaque rendering of *symbolic* ints (hex(), format(), f-strings): returns a placeholder instead of
    realising the value.  Only enabled for harness families where rendered ints flow into exception
    messages / reprs only (never for C17/C20 where rendering numbers is the subject)."""
    _state["opaque"] = flag
