"""CrossHair-side stubs that every symbolic worker installs (each one is part of the claim and is
listed in the evidence)."""
import builtins

import crosshair.core as _cc
import crosshair.core_and_libs  # noqa: F401  (registers the library models)
from crosshair.libimpl.builtinslib import SymbolicInt
from crosshair.tracers import NoTracing

_orig_hex = builtins.hex
_state = {"opaque": False}
_real_format = SymbolicInt.__format__


def _hex(x):
    if _state["opaque"]:
        with NoTracing():
            sym = isinstance(x, SymbolicInt)
        if sym:
            return "0x??"
    return _orig_hex(x)


def _format(self, fmt):
    if _state["opaque"]:
        return "??"
    return _real_format(self, fmt)


_ch_format = _cc._PATCH_REGISTRATIONS.get(builtins.format)


def _builtin_format(obj, format_spec=""):
    if _state["opaque"]:
        with NoTracing():
            sym = isinstance(obj, SymbolicInt)
        if sym:
            return "??"
    if _ch_format is not None:
        return _ch_format(obj, format_spec)
    return _orig_format(obj, format_spec)


_orig_format = builtins.format


def install() -> None:
    _cc._PATCH_REGISTRATIONS[builtins.hex] = _hex
    _cc._PATCH_REGISTRATIONS[builtins.format] = _builtin_format
    SymbolicInt.__format__ = _format


def set_opaque(flag: bool) -> None:
    """Opaque rendering of *symbolic* ints (hex(), format(), f-strings): returns a placeholder instead of
    realising the value.  Only enabled for harness families where rendered ints flow into exception
    messages / reprs only (never for C17/C20 where rendering numbers is the subject)."""
    _state["opaque"] = flag
