"""Meta-path loader: compiles the *current* gallia sources under /repo/src after one AST rewrite:
expression statements ``logger.<level>(...)`` become ``pass`` (formatting of log text is not the
subject of any property and its f-string arguments realise symbolic bytes).  ``logger.result`` is kept.
Only active in symbolic-execution workers; replays import gallia unmodified."""
import ast
import importlib.abc
import importlib.machinery
import sys

LEVELS = {"trace", "debug", "info", "notice", "warning", "warn", "error", "critical", "exception"}
STRIPPED: dict[str, int] = {}
NOSTRIP = set(filter(None, __import__("os").environ.get("VERIF_NOSTRIP", "").split(",")))


class _Strip(ast.NodeTransformer):
    def __init__(self) -> None:
        self.n = 0

    def visit_Expr(self, node: ast.Expr):  # noqa: N802
        v = node.value
        if (
            isinstance(v, ast.Call)
            and isinstance(v.func, ast.Attribute)
            and v.func.attr in LEVELS
            and isinstance(v.func.value, ast.Name)
            and v.func.value.id == "logger"
        ):
            self.n += 1
            return ast.copy_location(ast.Pass(), node)
        return self.generic_visit(node)


class _Loader(importlib.machinery.SourceFileLoader):
    def source_to_code(self, data, path, *, _optimize=-1):  # type: ignore[override]
        tree = ast.parse(data, path)
        s = _Strip()
        tree = s.visit(tree)
        ast.fix_missing_locations(tree)
        STRIPPED[str(path)] = s.n
        return compile(tree, path, "exec", dont_inherit=True, optimize=_optimize)

    def get_code(self, fullname):  # never use cached bytecode
        path = self.get_filename(fullname)
        return self.source_to_code(self.get_data(path), path)


class _Finder(importlib.abc.MetaPathFinder):
    def find_spec(self, name, path, target=None):
        if not (name == "gallia" or name.startswith("gallia.")):
            return None
        if name in NOSTRIP:
            return None  # formatting inside log calls is part of the subject for this module (e.g. C15: failing hooks)
        spec = importlib.machinery.PathFinder.find_spec(name, path)
        if spec and isinstance(spec.loader, importlib.machinery.SourceFileLoader):
            spec.loader = _Loader(spec.loader.name, spec.loader.path)
        return spec


def install() -> None:
    sys.dont_write_bytecode = True
    if not any(isinstance(f, _Finder) for f in sys.meta_path):
        sys.meta_path.insert(0, _Finder())
