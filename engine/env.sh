#!/bin/sh
# Idempotent, offline: overlay venv on top of /venv with crosshair-tool, z3-solver, cvc5.
set -e
ROOT="$(cd "$(dirname "$0")/.." && pwd)"
V="$ROOT/.cache/venv"
mkdir -p "$ROOT/.cache"
(
  flock 9
  if [ ! -x "$V/bin/python" ] || ! "$V/bin/python" -c "import crosshair, z3" 2>/dev/null; then
    rm -rf "$V"
    /venv/bin/python -m venv "$V"
    SP="$("$V/bin/python" -c 'import sysconfig; print(sysconfig.get_paths()["purelib"])')"
    printf "import site; site.addsitedir('/venv/lib/python3.12/site-packages')\n" > "$SP/_ov.pth"
    PIP_NO_INDEX=1 "$V/bin/pip" install -q --no-index --find-links /opt/veriftools/wheels crosshair-tool z3-solver cvc5 jsonschema >&2
  fi
) 9> "$ROOT/.cache/env.lock"
echo "$V"
