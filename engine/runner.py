"""Orchestrator.  usage:
    python -m engine.runner check <Cxx> [--tier quick|thorough] [--only <glob>] [--jobs N] [-v]
    python -m engine.runner replay <path>
Exit codes: 0 all obligations discharged (known findings aside); 1 VIOLATION; 2 INCONCLUSIVE; 3 harness error."""
import argparse
import fnmatch
import importlib
import json
import os
import queue
import shutil
import subprocess
import sys
import threading
import time

ROOT = os.path.dirname(os.path.dirname(os.path.abspath(__file__)))
PY = sys.executable
EVID = os.environ.get("VERIF_EVID_DIR") or os.path.join(ROOT, "evidence")
REPLAYS = os.path.join(EVID, "replays")


def _lit(s):
    import ast

    if s is None:
        return None
    try:
        return ast.literal_eval(s)
    except Exception:  # noqa: BLE001
        return None


def load_known():
    p = os.path.join(ROOT, "known_findings.json")
    if not os.path.exists(p):
        return []
    with open(p) as f:
        return json.load(f).get("findings", [])


class Worker:
    def __init__(self, idx: int):
        self.idx = idx
        self.proc = None
        self.start()

    def start(self):
        env = dict(os.environ)
        env["PYTHONPATH"] = ROOT + os.pathsep + env.get("PYTHONPATH", "")
        env["PYTHONDONTWRITEBYTECODE"] = "1"
        env.setdefault("PYTHONHASHSEED", "0")
        self.proc = subprocess.Popen(
            [PY, "-m", "engine.worker"], stdin=subprocess.PIPE, stdout=subprocess.PIPE, stderr=subprocess.PIPE,
            text=True, cwd=ROOT, env=env,
        )
        self.errbuf: list[str] = []
        threading.Thread(target=self._drain, daemon=True).start()

    def _drain(self):
        for line in self.proc.stderr:
            self.errbuf.append(line)
            if len(self.errbuf) > 200:
                del self.errbuf[:100]

    def run(self, task: dict, deadline_s: float) -> dict:
        """Send one task, wait for its result (kill and restart the worker on deadline)."""
        if self.proc.poll() is not None:
            self.start()
        self.proc.stdin.write(json.dumps(task) + "\n")
        self.proc.stdin.flush()
        result: list = []

        def rd():
            for line in self.proc.stdout:
                if line.startswith("@@RESULT "):
                    result.append(json.loads(line[9:]))
                    return

        th = threading.Thread(target=rd, daemon=True)
        th.start()
        th.join(deadline_s)
        if not result:
            alive = self.proc.poll() is None
            self.proc.kill()
            self.proc.wait()
            err = "".join(self.errbuf[-20:])
            self.start()
            return {"id": task["id"], "main": {"status": "inconclusive" if alive else "harness-error",
                                               "detail": ("hard deadline exceeded" if alive else "worker died: " + err[-1500:])}}
        return result[0]

    def stop(self):
        try:
            self.proc.stdin.close()
            self.proc.wait(timeout=5)
        except Exception:  # noqa: BLE001
            self.proc.kill()


def run_replay(rp: dict, path: str, profile=False) -> dict:
    os.makedirs(os.path.dirname(path), exist_ok=True)
    with open(path, "w") as f:
        json.dump(rp, f, indent=1)
    env = dict(os.environ)
    env["PYTHONPATH"] = ROOT + os.pathsep + env.get("PYTHONPATH", "")
    env["PYTHONDONTWRITEBYTECODE"] = "1"
    env.pop("VERIF_TWIN", None)
    try:
        p = subprocess.run([PY, "-m", "engine.replay", path] + (["--profile"] if profile else []),
                           capture_output=True, text=True, cwd=ROOT, env=env, timeout=600)
    except subprocess.TimeoutExpired:
        return {"outcome": "error", "error": "replay timeout"}
    for line in p.stdout.splitlines():
        if line.startswith("@@REPLAY "):
            return json.loads(line[9:])
    return {"outcome": "error", "error": (p.stdout + p.stderr)[-2000:]}


def main_check(args) -> int:
    pid = args.property
    tier = args.tier or os.environ.get("VERIF_TIER") or "quick"
    seed = int(os.environ.get("VERIF_SEED", "0") or 0)
    t0 = time.time()
    scratch = os.path.join(ROOT, ".cache", f"run-{os.getpid()}")
    os.makedirs(scratch, exist_ok=True)
    os.makedirs(REPLAYS, exist_ok=True)
    evid_path = os.path.join(EVID, f"{pid}.json")
    try:
        os.remove(evid_path)
    except OSError:
        pass
    for fn in os.listdir(REPLAYS):
        if fn.startswith(pid + "-"):
            os.remove(os.path.join(REPLAYS, fn))
    try:
        mod = importlib.import_module(f"checks.{pid.lower()}")
        obligations = mod.obligations(tier, scratch)
    except Exception as e:  # noqa: BLE001
        import traceback

        traceback.print_exc()
        print(f"HARNESS-ERROR property={pid} cannot build obligations: {e!r}")
        shutil.rmtree(scratch, ignore_errors=True)
        return 3
    if args.only:
        obligations = [o for o in obligations if any(fnmatch.fnmatch(o["name"], g) for g in args.only.split(","))]
    info = getattr(mod, "INFO", {})
    if info.get("nostrip"):
        os.environ["VERIF_NOSTRIP"] = ",".join(info["nostrip"])
    known = [k for k in load_known() if k["property"] == pid]
    srcs: dict[str, str] = {}

    def module_source(path):
        if path not in srcs:
            with open(path) as f:
                srcs[path] = f.read()
        return srcs[path]

    jobs = args.jobs or int(os.environ.get("VERIF_JOBS", "0") or 0) or min(16, os.cpu_count() or 4)
    jobs = max(1, min(jobs, len(obligations) or 1))
    # longest first
    todo: "queue.Queue[dict]" = queue.Queue()
    capmax = float(os.environ.get("VERIF_CAP_MAX", "0") or 0)
    for o in sorted(obligations, key=lambda o: -o.get("cap", 60)):
        o.setdefault("exclude", [])
        if capmax:
            o["cap"] = min(o.get("cap", 60), capmax)
        todo.put(o)
    results: dict[str, dict] = {}
    lock = threading.Lock()
    printed_known: set[str] = set()
    counters = {"replays": 0, "violations": 0}
    lines: list[str] = []

    def emit(s):
        with lock:
            print(s, flush=True)
            lines.append(s)

    def handle(o, w: Worker):
        name = o["name"]
        task = {"id": name, "module_path": o["module_path"], "function": o["function"], "cap": o.get("cap", 60),
                "exclude": o["exclude"], "helpers": o.get("helpers", []), "opaque": o.get("opaque", False), "scratch": scratch,
                "twin": o.get("twin", True), "twin_cap": o.get("twin_cap", 60)}
        deadline = task["cap"] * 1.5 + task["twin_cap"] + 90
        r = w.run(task, deadline)
        main = r["main"]
        rec = {"name": name, "status": main["status"], "wall_s": main.get("wall_s"), "paths": main.get("paths", 0),
               "solver_checks": main.get("solver_checks", 0), "solver_s": main.get("solver_s", 0.0),
               "meta": o.get("meta", {}), "exclude": list(o["exclude"]), "known": o.get("known_hits", [])}
        base_rp = {"property": pid, "obligation": name, "module_name": "vh_" + os.path.splitext(os.path.basename(o["module_path"]))[0],
                   "module_source": module_source(o["module_path"]), "function": o["function"]}
        if main["status"] == "refuted":
            a = _lit(main.get("args"))
            if a is None:
                rec.update(status="harness-error", detail="counterexample not parseable: " + str(main.get("message"))[:500])
            else:
                with lock:
                    counters["replays"] += 1
                    n = counters["replays"]
                rpath = os.path.join(REPLAYS, f"{pid}-{n}.json")
                rr = run_replay(dict(base_rp, args=repr(a), message=main.get("message")), rpath)
                if rr["outcome"] == "fail":
                    hit = None
                    for k in known:
                        if fnmatch.fnmatch(name, k["obligation"]):
                            try:
                                genv = dict(vars(importlib.import_module(k["helpers"]))) if k.get("helpers") else {}
                                if eval(k["region"], genv, dict(a)):  # noqa: S307
                                    hit = k
                                    break
                            except Exception:  # noqa: BLE001
                                continue
                    if hit is not None and hit["region"] not in o["exclude"]:
                        key = hit.get("id") or (hit["obligation"] + "|" + hit["region"])
                        with lock:
                            first = key not in printed_known
                            printed_known.add(key)
                        if first:
                            emit(f"KNOWN-FINDING: property={pid} {hit['what']}")
                        o2 = dict(o)
                        o2["exclude"] = o["exclude"] + [hit["region"]]
                        if hit.get("helpers"):
                            o2["helpers"] = sorted(set(o.get("helpers", [])) | {hit["helpers"]})
                        o2["known_hits"] = o.get("known_hits", []) + [{"id": key, "args": repr(a), "replay": rpath}]
                        # keep partial stats
                        o2["acc"] = _acc(o.get("acc"), rec)
                        todo.put(o2)
                        return None
                    with lock:
                        counters["violations"] += 1
                    rec.update(status="refuted", args=repr(a), message=main.get("message"), replay=rpath,
                               replay_error=(rr.get("error") or "")[-800:])
                    emit(f"VIOLATION property={pid} replay={rpath}")
                    emit(f"  obligation={name} args={a!r}")
                    emit("  " + (rr.get("error") or "").strip().splitlines()[-1] if rr.get("error") else "")
                else:
                    rec.update(status="harness-error", args=repr(a),
                               detail=f"counterexample does not replay ({rr['outcome']}): {main.get('message')}"[:800] + " :: " + str(rr.get("error"))[:300])
        elif main["status"] == "discharged":
            tw = r.get("twin")
            if o.get("twin", True):
                if not tw or not tw.get("reached"):
                    rec.update(status="inconclusive", detail="reachability twin not refuted (vacuous?): " + str(tw and tw.get("detail"))[:500])
                else:
                    rec["paths"] += tw.get("paths") or 0
                    rec["solver_checks"] += tw.get("solver_checks") or 0
                    rec["solver_s"] += tw.get("solver_s") or 0.0
                    a = _lit(tw.get("args"))
                    if a is None:
                        rec.update(status="harness-error", detail="twin model not parseable")
                    else:
                        with lock:
                            counters["replays"] += 1
                            n = counters["replays"]
                        rpath = os.path.join(REPLAYS, f"{pid}-w{n}.json")
                        rr = run_replay(dict(base_rp, args=repr(a), message="reachability witness"), rpath, profile=True)
                        try:
                            os.remove(rpath)
                        except OSError:
                            pass
                        if rr["outcome"] == "pass":
                            rec.update(witness=repr(a), functions=rr.get("functions", []))
                        else:
                            rec.update(status="harness-error",
                                       detail=f"witness model fails on the plain interpreter ({rr['outcome']}): " + str(rr.get("error"))[-600:],
                                       args=repr(a))
        else:
            rec["detail"] = main.get("detail")
            if (main["status"] == "inconclusive" and o["exclude"] and "PRE_UNSAT" in str(main.get("detail"))
                    and (main.get("wall_s") or 1e9) < task["cap"] / 2):
                # after removing the known-finding region nothing is left of this obligation's input space
                rec.update(status="discharged", detail="input space entirely inside the listed known-finding region(s)")
        if o.get("acc"):
            rec = _acc(o["acc"], rec, final=True)
        return rec

    def _acc(acc, rec, final=False):
        if acc is None:
            return {"paths": rec["paths"], "solver_checks": rec["solver_checks"], "solver_s": rec["solver_s"]}
        out = dict(rec) if final else {}
        for k in ("paths", "solver_checks", "solver_s"):
            out[k] = (acc.get(k) or 0) + (rec.get(k) or 0)
        return out

    pending = {"n": len(obligations)}

    def loop(idx):
        w = Worker(idx)
        try:
            while True:
                with lock:
                    if pending["n"] <= 0:
                        return
                try:
                    o = todo.get(timeout=0.5)
                except queue.Empty:
                    continue
                try:
                    rec = handle(o, w)
                except Exception as e:  # noqa: BLE001
                    import traceback

                    rec = {"name": o["name"], "status": "harness-error", "detail": traceback.format_exc()[-1500:],
                           "paths": 0, "solver_checks": 0, "solver_s": 0.0, "meta": o.get("meta", {})}
                if rec is None:
                    continue  # re-queued with an exclusion
                with lock:
                    results[rec["name"]] = rec
                    pending["n"] -= 1
                if args.verbose or rec["status"] != "discharged":
                    emit(f"[{rec['status']}] {rec['name']} {rec.get('wall_s')}s paths={rec.get('paths')} " + (str(rec.get("detail") or rec.get("message") or "")[:300]))
        finally:
            w.stop()

    threads = [threading.Thread(target=loop, args=(i,), daemon=True) for i in range(jobs)]
    for t in threads:
        t.start()
    for t in threads:
        t.join()

    recs = [results[o["name"]] for o in obligations if o["name"] in results]
    n_ob = len(recs)
    n_dis = sum(1 for r in recs if r["status"] == "discharged")
    n_ref = sum(1 for r in recs if r["status"] == "refuted")
    n_inc = sum(1 for r in recs if r["status"] == "inconclusive")
    n_err = sum(1 for r in recs if r["status"] == "harness-error")
    functions = sorted({f for r in recs for f in r.get("functions", [])})
    samples = []
    wit = [r for r in recs if r.get("witness")]
    step = max(1, len(wit) // 12)
    for r in wit[::step][:12]:  # spread over the obligation list
        samples.append({"obligation": r["name"], "bounds": r.get("meta"), "reachability_model": r["witness"]})
    for r in recs:
        if r["status"] == "refuted":
            samples.insert(0, {"obligation": r["name"], "counterexample": r.get("args"), "message": r.get("message")})
    if not samples:
        samples = [{"obligation": r["name"], "bounds": r.get("meta"), "status": r["status"]} for r in recs[:5]] or [{"note": "no obligations"}]
    wall = time.time() - t0
    ev = {
        "property_id": pid,
        "tier": tier,
        "seed": seed,
        "level": info.get("level", "model_checking"),
        "coverage": {
            "states": max(1, sum(r.get("paths") or 0 for r in recs)),
            "transitions": max(1, sum(r.get("solver_checks") or 0 for r in recs)),
            "traces_validated_against_impl": counters["replays"],
            "samples": samples,
            "obligations": n_ob,
            "discharged": n_dis,
            "refuted": n_ref,
            "inconclusive": n_inc,
            "harness_errors": n_err,
            "exhaustive": n_ob > 0 and n_dis == n_ob,
            "solver_time_s": round(sum(r.get("solver_s") or 0 for r in recs), 2),
            "explanation": "states = symbolic paths completed by CrossHair over the real gallia code (incl. reachability twins); "
                           "transitions = z3 Solver.check calls; an obligation is discharged only when CrossHair reports "
                           "'confirmed over all paths' within the stated bounds and its reachability twin is refuted.",
            "functions_encoded": functions,
            "bounds": info.get("bounds", {}).get(tier, info.get("bounds")),
            "stubs": info.get("stubs", []),
            "outside_claim": info.get("outside", []),
            "known_findings_hit": sorted(printed_known),
            "extra": {k: v for k, v in info.items() if k not in ("level", "bounds", "stubs", "outside", "assumptions", "nostrip")},
            "per_obligation": [
                {k: r.get(k) for k in ("name", "status", "wall_s", "paths", "solver_checks", "solver_s", "meta", "exclude", "detail") if r.get(k) not in (None, [], {})}
                for r in recs
            ],
        },
        "assumptions": info.get("assumptions", []) + info.get("stubs", []),
        "wall_s": round(wall, 2),
        "violations": n_ref,
    }
    os.makedirs(EVID, exist_ok=True)
    with open(evid_path, "w") as f:
        json.dump(ev, f, indent=1, default=repr)
    shutil.rmtree(scratch, ignore_errors=True)
    print(f"SUMMARY property={pid} tier={tier} obligations={n_ob} discharged={n_dis} refuted={n_ref} "
          f"inconclusive={n_inc} harness_errors={n_err} known={len(printed_known)} wall={wall:.1f}s")
    if n_ref:
        return 1
    if n_err:
        print(f"HARNESS-ERROR property={pid}")
        return 3
    if n_inc or n_ob == 0:
        print(f"INCONCLUSIVE property={pid}")
        return 2
    return 0


def main_replay(args) -> int:
    from engine import replay

    res = replay.run(args.path)
    print(json.dumps({k: v for k, v in res.items() if k != "functions"}, indent=1))
    return 1 if res["outcome"] == "fail" else 0


def main() -> int:
    ap = argparse.ArgumentParser()
    sub = ap.add_subparsers(dest="cmd", required=True)
    c = sub.add_parser("check")
    c.add_argument("property")
    c.add_argument("--tier", choices=["quick", "thorough"])
    c.add_argument("--only")
    c.add_argument("--jobs", type=int)
    c.add_argument("-v", "--verbose", action="store_true")
    r = sub.add_parser("replay")
    r.add_argument("path")
    args = ap.parse_args()
    if args.cmd == "check":
        return main_check(args)
    return main_replay(args)


if __name__ == "__main__":
    sys.exit(main())
