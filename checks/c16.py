"""C16 (partial) -- a virtual ECU is determined by its seed: model invariants for every outcome of every draw, isolation of
random sources, answers as a function of (seed, session, request).  Cross-process identity is outside (DESIGN.md)."""
import os

INFO = {
    "level": "model_checking",
    "bounds": {
        "quick": "randomize(): every split of <= 3 sessions into mandatory/optional x <= 2 optional services, each rng.random() comparison a symbolic bool, "
                 "choice a symbolic index, seed symbolic; session-graph draws and service draws in separate obligations (the other group deterministic, p in {0,1}); "
                 "same-answers: two instances, concrete real model of seed 3, request = offered service id + 1..2 symbolic bytes; stateful_rng on symbolic seed/session",
        "thorough": "<= 3 optional services, request up to 3 symbolic bytes, real models of seeds 0..3",
    },
    "stubs": ["RNG -> nondeterministic stub drawing from explicit symbolic harness arguments; memoised on its seeding arguments for the same-answers obligations",
              "global random module, hash(), id() inside server.py -> traps", "time() -> two different counters for the two instances", "pydantic parameter objects concrete"],
    "outside": ["cross-process identity (PYTHONHASHSEED, import order, set iteration order): property of CPython runs, not of a path condition",
                "more than 3 sessions / 3 optional services in one obligation", "p_sub_function strictly between 0 and 1 (63-127 independent draws per service)"],
    "assumptions": [],
}

INV = '''
def {name}(seed: int, {bools}, i0: int, i1: int, i2: int) -> bool:
    """
    pre: 0 <= seed <= 5
    post: _
    """
    return model_invariants(seed, params({ms!r}, {os_!r}, {msv!r}, {osv!r}, {ps}, {psub}), [{blist}], [i0, i1, i2])
'''

SAME = '''
def {name}(tail: bytes, i0: int, i1: int, i2: int, i3: int, i4: int, i5: int, i6: int, i7: int, b0: bool, b1: bool, b2: bool, b3: bool) -> bool:
    """
    pre: len(tail) == {n}{extra}
    post: _
    """
    return same_answers({seed}, {session}, {sid}, tail, real_model({seed}), [i0, i1, i2, i3, i4, i5, i6, i7], [b0, b1, b2, b3])
'''


def obligations(tier, scratch):
    from checks import c14_lib

    quick = tier == "quick"
    path = os.path.join(scratch, "gen_c16.py")
    src = ["from checks.c16_lib import model_invariants, params, same_answers, seed_string", "from checks.c14_lib import real_model", ""]
    obs = []
    NB = 30
    bools = ", ".join(f"b{i}: bool" for i in range(NB))
    blist = ", ".join(f"b{i}" for i in range(NB))
    # (i) session graph: all splits of {1, 2, 0x40} (and smaller sets) into mandatory / optional
    splits = [([1], []), ([1], [2]), ([1, 2], []), ([1], [2, 0x40]), ([1, 2], [0x40]), ([1, 0x40], [2]), ([1, 2, 0x40], []), ([2], [1]), ([2], [3])]
    for ms, os_ in splits:
        name = "graph_m" + "_".join(f"{x:x}" for x in ms) + "_o" + "_".join(f"{x:x}" for x in os_)
        src.append(INV.format(name=name, bools=bools, blist=blist, ms=ms, os_=os_, msv=[0x10], osv=[0x3E, 0x22], ps=1.0, psub=0.0))
        obs.append({"name": name, "module_path": path, "function": name, "cap": 900, "opaque": True, "twin_cap": 60,
                    "meta": {"mandatory_sessions": ms, "optional_sessions": os_, "services": "deterministic", "draws": "every session-graph draw symbolic"}})
    # services: p_service strictly inside (0,1) -> symbolic; graph deterministic (no optional sessions)
    svc_sets = [([0x10], [0x3E]), ([0x10], [0x27, 0x22]), ([0x10, 0x3E], [0x31]), ([0x10], [0x19, 0x11, 0x2E])][: 3 if quick else 4]
    for msv, osv in svc_sets:
        for psub in (0.0, 1.0):
            if psub == 1.0 and 0x27 in osv:
                continue  # SecurityAccess halves p_sub_function: 63 independent symbolic draws
            name = "svc_m" + "_".join(f"{x:x}" for x in msv) + "_o" + "_".join(f"{x:x}" for x in osv) + f"_psub{int(psub)}"
            src.append(INV.format(name=name, bools=bools, blist=blist, ms=[1, 2], os_=[], msv=msv, osv=osv, ps=0.2, psub=psub))
            obs.append({"name": name, "module_path": path, "function": name, "cap": 900, "opaque": True, "twin_cap": 60,
                        "meta": {"mandatory_services": msv, "optional_services": osv, "p_sub_function": psub, "draws": "every service draw symbolic"}})
    # (iii) same answers + isolation on the real model of a concrete seed
    for seed in (3,) if quick else (0, 1, 2, 3):
        src.insert(2, f"real_model({seed})")
        model = c14_lib.real_model(seed)
        sessions = sorted(model)
        offered = sorted({int(k) for m in model.values() for k in m})
        for session in sessions[:1] + sessions[-1:]:
            for sid in offered:
                for n in (2, 3) if quick else (2, 3, 4):
                    variants = [("", "")]
                    if sid == 0x19:
                        variants = [("_sf02", "\n    pre: tail[0] % 128 == 2")]
                    elif sid in (0x2C, 0x31):
                        variants = [("_sf01", "\n    pre: tail[0] % 128 == 1")]
                    for vt, extra in variants:
                        name = f"same{seed}_s{session:02x}_{sid:02x}_n{n}{vt}"
                        src.append(SAME.format(name=name, n=n - 1, seed=seed, session=session, sid=sid, extra=extra))
                        obs.append({"name": name, "module_path": path, "function": name, "cap": 400 if n < 4 else 1500, "opaque": True, "twin_cap": 60,
                                    "meta": {"real_seed": seed, "session": session, "service_id": hex(sid), "request_len": n}})
    src.append('''
def rng_seeding(seed: int, session: int, other_seed: int, other_session: int) -> bool:
    """
    pre: 0 <= seed <= 11 and 0 <= other_seed <= 11
    pre: 1 <= session <= 11 and 1 <= other_session <= 11
    post: _
    """
    return seed_string(seed, session, bytes([0x22, 0xF1, 0x90]), other_seed, other_session)
''')
    obs.append({"name": "rng_seeding", "module_path": path, "function": "rng_seeding", "cap": 600, "opaque": False,
                "meta": {"function": "RandomUDSServer.stateful_rng (real)", "seed": "0..11 symbolic", "session": "1..11 symbolic", "pdu": "concrete"}})
    with open(path, "w") as f:
        f.write("\n".join(src))
    return obs
