"""C09 -- the session scan reports exactly the sessions reachable within the depth limit."""
import os

INFO = {
    "level": "model_checking",
    "bounds": {
        "quick": "ECU graphs on sessions {1, 2, 3} and {1, 2, 0x7f}: every transition between them a symbolic boolean (each session can return to 1: documented precondition), refusal response code "
                 "per target symbolic in {subFunctionNotSupported, ...InActiveSession, conditionsNotCorrect}; depth 1..4, thorough on/off, skip list {}, {2}, {3} per obligation; "
                 "4 sessions {1,2,3,4}, depth 3, with 1->2 and 1->3 absent (the other splits: thorough)",
        "thorough": "4 sessions for depth 1..4 and all splits",
    },
    "stubs": ["ECU = graph stub answering set_session with the real response classes", "scanner config = plain namespace (pydantic bypassed)", "database handler = recording stub",
              "all session ids outside the model are put into the skip list", "logger.* stripped (logger.result kept)"],
    "outside": ["--reset, --with-hooks", "ECUs in which a session cannot return to the default session (scan exits by design)", "more than 4 sessions"],
    "assumptions": ["spec/session_model.py: BFS reachability"],
}


def obligations(tier, scratch):
    quick = tier == "quick"
    path = os.path.join(scratch, "gen_c09.py")
    src = ["from checks.c09_lib import scan", ""]
    obs = []

    def gen(name, nodes, fixed, depth, thorough, skipped, cap=900):
        sym = [(s, t) for s in nodes for t in nodes if t != 1 and (s, t) not in fixed]
        params = ", ".join([f"e{s}{t}: bool" for s, t in sym] + [f"r{t}: int" for t in nodes if t != 1])
        pres = "\n".join(f"    pre: 0 <= r{t} <= 2" for t in nodes if t != 1)
        edges = ", ".join([f"({s}, 1): True" for s in nodes] + [f"({s}, {t}): e{s}{t}" for s, t in sym] + [f"({s}, {t}): {v}" for (s, t), v in fixed.items()])
        refusal = ", ".join(f"{t}: r{t}" for t in nodes if t != 1)
        src.append(f'''
def {name}({params}) -> bool:
    """
{pres}
    post: _
    """
    return scan({nodes!r}, {{{edges}}}, {{{refusal}}}, {depth}, {thorough}, {skipped!r})
''')
        obs.append({"name": name, "module_path": path, "function": name, "cap": cap, "opaque": True, "twin_cap": 120,
                    "meta": {"sessions": nodes, "symbolic_transitions": [f"{s}->{t}" for s, t in sym], "fixed": {f"{s}->{t}": v for (s, t), v in fixed.items()},
                             "depth": depth, "thorough": thorough, "skip": skipped}})

    for depth in (1, 2, 3, 4):
        for thorough in (False, True):
            if thorough and depth == 4 and quick:
                continue
            for skipped in ([], [2], [3]):
                if skipped and depth in (1, 4) and quick:
                    continue
                gen(f"g3_d{depth}_{'th' if thorough else 'std'}_skip{''.join(map(str, skipped)) or 'none'}", [1, 2, 3], {}, depth, thorough, skipped)
    # the extremes of the session id range are nodes too (ids 0x7f and 0x02 next to the default session)
    for depth in (1, 2) if quick else (1, 2, 3, 4):
        gen(f"gb_d{depth}_std", [1, 2, 0x7F], {}, depth, False, [])
    for a in (False, True):
        for b in (False, True):
            if quick and (a or b):
                continue  # 700-2000 paths each: thorough tier
            for depth in (3,) if quick else (1, 2, 3, 4):
                gen(f"g4_d{depth}_f{int(a)}{int(b)}", [1, 2, 3, 4], {(1, 2): a, (1, 3): b, (4, 4): False, (3, 3): False, (2, 2): False}, depth, False, [], cap=1500)
    with open(path, "w") as f:
        f.write("\n".join(src))
    return obs
