"""Shared harness library for the virtual-ECU properties (C13, C14, C16): the real UDSServerTransport.handle_request /
RandomUDSServer code driven on symbolic requests, from an arbitrary valid state, over a symbolic model, with every random
draw taken from the harness' explicit draw pool."""
import copy

from engine.hlib import Draws, PoolExhausted, Vacuous, check, done, drive  # noqa: F401
from gallia.services.uds import server as SV
from gallia.services.uds.core import service as S
from gallia.services.uds.core.constants import UDSIsoServices
from gallia.transports import TargetURI

# services gallia models with a sub-function byte (the model carries a list for them, like RandomUDSServer.randomize)
MODEL_SF_SERVICES = (0x10, 0x11, 0x27, 0x28, 0x3E, 0x85, 0x19, 0x2C, 0x31)
SWITCHES = ("default_response_if_service_not_supported", "default_response_if_missing_sub_function",
            "default_response_if_sub_function_not_supported", "default_response_if_incorrect_format",
            "default_response_if_session_change", "default_response_if_session_read", "default_response_if_tester_present",
            "default_response_if_none", "default_response_if_suppress")

# pydantic objects are built once at import (outside tracing) and stay concrete
_BEHAVIORS = {}


def behavior(off=()):
    key = tuple(sorted(off))
    if key not in _BEHAVIORS:
        _BEHAVIORS[key] = SV.UDSServer.Behavior(**{k: False for k in key})
    return _BEHAVIORS[key]


_TEMPLATE = SV.RandomUDSServer(0)
_URI = TargetURI("tcp-lines://127.0.0.1:20162")


class Coin:
    """value of rng.random(); only ever compared with a probability"""

    def __init__(self, draws):
        self.d = draws

    def __lt__(self, p):
        return False if p <= 0 else (True if p >= 1 else self.d.bool())

    def __le__(self, p):
        return False if p <= 0 else (True if p >= 1 else self.d.bool())


class NDRNG:
    """Nondeterministic stand-in for RNG: every draw is an explicit harness argument constrained only by the documented range."""

    small_bytes = False  # two random values meet in a bit operation / are dict keys (ReadDTCInformation): draw from a 3-element set, at most one DTC

    def __init__(self, draws, *seeds):
        self.d = draws
        self.seeds = list(seeds)

    def random(self):
        return Coin(self.d)

    def random_bool(self, p_true):
        return Coin(self.d) <= p_true

    def randint(self, a, b):
        if self.small_bytes and (a, b) == (0, 255):
            i = self.d.int(0, 2)
            return 0x00 if i == 0 else (0xFF if i == 1 else 0x5A)
        if self.small_bytes and (a, b) == (0, 256**3 - 1):  # used as a dict key by the handler (hashing realises it)
            i = self.d.int(0, 2)
            return 0x000000 if i == 0 else (0xFFFFFF if i == 1 else 0x123456)
        return self.d.int(a, b)

    def choice(self, seq):
        return seq[self.d.int(0, len(seq) - 1)]

    def add_seeds(self, *a):
        self.seeds += list(a)

    def set_seeds(self, *a):
        self.seeds = list(a)

    def expovariate(self, lam):
        if self.small_bytes:
            return 0 if self.d.int(0, 1) == 0 else 1
        v = self.d.int(0, 2)
        return 0 if v == 0 else (1 if v == 1 else 2)

    def random_payload(self, min_len=0, max_len=None):
        hi = 2 if max_len is None else min(2, max_len)
        n = self.d.int(min_len, max(min_len, hi))
        k = 0 if n == 0 else (1 if n == 1 else 2)  # concrete length after the fork
        return bytes([self.d.int(0, 255) for _ in range(k)])


class Clock:
    def __init__(self):
        self.t = 1000.0

    def __call__(self):
        self.t += 0.001
        return self.t


def make_server(model, off, draws, session=1, level=None):
    srv = copy.copy(_TEMPLATE)
    srv.behavior = behavior(off)
    srv.state = SV.RNGEcuState()
    srv.state.session = session
    srv.state.security_access_level = level
    srv.services = model
    srv.stateful_rng = lambda *a: NDRNG(draws)
    return srv


class Patched:
    """patches module attributes of gallia.services.uds.server for the duration of a harness call"""

    def __init__(self, draws):
        self.draws = draws

    def __enter__(self):
        self.saved = (SV.RNG, SV.time)
        d = self.draws
        SV.RNG = lambda *a: NDRNG(d, *a)
        SV.time = Clock()
        return self

    def __exit__(self, *exc):
        SV.RNG, SV.time = self.saved
        return False


class LazyList(list):
    """sub-function list [v] that exists iff `present` -- the symbolic facts are only examined when the code asks"""

    def __init__(self, present, values):
        super().__init__()
        self.present = present
        self.values = values

    def _items(self):
        return list(self.values) if self.present else []

    def __contains__(self, x):
        if not self.present:
            return False
        for v in self.values:
            if v == x:
                return True
        return False

    def __iter__(self):
        return iter(self._items())

    def __len__(self):
        return len(self._items())

    def __eq__(self, other):
        return self._items() == list(other)

    __hash__ = None


class LazyServices(dict):
    """services of one session: concrete entries plus the service under test, present iff the symbolic fact `present`"""

    def __init__(self, concrete, key, present, value):
        super().__init__(concrete)
        self.key = key
        self.present = present
        self.value = value

    def __contains__(self, k):
        if self.key is not None and k == self.key:
            return bool(self.present)
        return dict.__contains__(self, k)

    def __getitem__(self, k):
        if self.key is not None and k == self.key:
            if self.present:
                return self.value
            raise KeyError(k)
        return dict.__getitem__(self, k)

    def get(self, k, default=None):
        return self[k] if k in self else default

    def _all(self):
        d = dict(dict.items(self))
        if self.key is not None and self.present:
            d[self.key] = self.value
        return d

    def __iter__(self):
        return iter(self._all())

    def keys(self):
        return self._all().keys()

    def items(self):
        return self._all().items()

    def values(self):
        return self._all().values()

    def __len__(self):
        return len(self._all())


class FactList(list):
    """list `base` plus `extra` iff the symbolic fact holds (examined only when asked)"""

    def __init__(self, base, fact, extra):
        super().__init__(base)
        self.base = list(base)
        self.fact = fact
        self.extra = extra

    def _items(self):
        return self.base + ([self.extra] if self.fact else [])

    def __contains__(self, x):
        for v in self.base:
            if v == x:
                return True
        return x == self.extra and bool(self.fact)

    def __iter__(self):
        return iter(self._items())

    def __len__(self):
        return len(self._items())

    __hash__ = None


def two_session_model(sid, cur, here, there, ha, ho, sfa, sfo, t12, t22):
    """Model over sessions {1, 2} (cur concrete): DiagnosticSessionControl everywhere (its sub-functions are sessions of the
    model and 1 is always enterable; 1->2 and 2->2 are the symbolic facts t12/t22), the service under test present in the
    active/other session as the symbolic facts say, with sub-function lists [sfa] / [sfo] (symbolic values) when ha / ho.
    All facts are evaluated lazily, i.e. only when the code under test or the oracle asks."""
    dsc = UDSIsoServices.DiagnosticSessionControl
    other = 2 if cur == 1 else 1
    d = {1: FactList([1], t12, 2), 2: FactList([1], t22, 2)}
    key = None
    try:
        if sid != 0x10:
            key = UDSIsoServices(sid)
    except ValueError:
        key = None  # an id gallia does not know can not be in a model
    is_sf = sid in MODEL_SF_SERVICES
    if sid == 0x27:
        la, lo = LazyList(ha, [sfa, sfa + 1]), LazyList(ho, [sfo, sfo + 1])
    else:
        la, lo = LazyList(ha, [sfa]), LazyList(ho, [sfo])
    return {cur: LazyServices({dsc: d[cur]}, key, here, la if is_sf else None),
            other: LazyServices({dsc: d[other]}, key, there, lo if is_sf else None)}


def handle(srv, pdu):
    tr = SV.UDSServerTransport(srv, _URI)
    reply, _ = drive(tr.handle_request(pdu))
    return reply
