"""C07 -- HSFZ demultiplexing under any segmentation and interleaving."""
import os

INFO = {
    "level": "model_checking",
    "bounds": {
        "quick": "(cut only in scripts of <= 2 frames) gateway scripts of <= 3 frames over {ack, ack with wrong echo / wrong address / full echo, data, second data, foreign data (src / dst), alive check, "
                 "short frames, status / error control words}; frame instants symbolic (non-decreasing, 0..3 s), one frame cut at a symbolic offset with a symbolic gap, "
                 "ack timeout symbolic 1..2000 ms in two scripts; client: write then 1-2 reads with 1 s timeout; header codec with symbolic bytes",
        "thorough": "scripts of 4 frames, every frame of a script cut in turn",
    },
    "stubs": ["TCP -> StreamReader/StreamWriter on a fake transport, scripted gateway on the virtual-time loop", "HSFZConfig (pydantic) concrete", "logger.* stripped"],
    "outside": ["kernel TCP", "frame kinds are concrete per obligation (control words flow into class patterns which ignore symbolic values)", "more than one cut per script"],
    "assumptions": ["ties (frame complete exactly at a deadline) unconstrained"],
}

SCRIPTS = [
    ("ack_data", ["ack", "data"], 1), ("data_ack", ["data", "ack"], 1), ("alive_ack_data", ["alive", "ack", "data"], 1),
    ("ack_alive_data", ["ack", "alive", "data"], 1), ("ack_foreign_data", ["ack", "foreign", "data"], 1),
    ("ack_foreigndst_data", ["ack", "foreign_dst", "data"], 1), ("wrongecho_ack_data", ["ack_wrong_echo", "ack", "data"], 1),
    ("wrongaddr_data", ["ack_wrong_addr", "data"], 1), ("fullecho", ["ack_full_echo"], 0), ("ack_short0_data", ["ack", "short0", "data"], 1),
    ("short1_ack_data", ["short1", "ack", "data"], 1), ("error", ["error"], 0), ("ack_error", ["ack", "error"], 1), ("status_ack", ["status", "ack"], 0),
    ("silence", [], 0), ("ack_data_data2", ["ack", "data", "data2"], 2), ("data_ack_data2", ["data", "ack", "data2"], 2),
    ("alive_only", ["alive"], 0), ("ack_data_alive", ["ack", "data", "alive"], 2),
    ("shortecho", ["ack_short_echo"], 0), ("emptyecho_ack_data", ["ack_empty_echo", "ack", "data"], 1),
]

TPL = '''
def {name}({tparams}off: int, gap: int, ato: int) -> bool:
    """
    pre: {order}
    pre: 0 <= off <= {maxoff}
    pre: 0 <= gap <= 1500000
    pre: {atopre}
    post: _
    """
    return run({script!r}, [{tlist}], {split}, off, gap, ato, 1000000, {reads})
'''


def obligations(tier, scratch):
    from checks import c07_lib

    quick = tier == "quick"
    path = os.path.join(scratch, "gen_c07.py")
    src = ["from checks.c07_lib import run, run_coalesced, codec, via_connect", ""]
    obs = []
    for tag, script, reads in SCRIPTS:
        n = len(script)
        sym_ato = tag in ("ack_data", "silence", "data_ack")
        if n == 0:
            splits = [None]
        elif not quick:
            splits = list(range(n))
        else:
            splits = [None] + ([n - 1] if tag in ("ack_data", "data_ack", "error", "alive_only") else [])
        for sp in splits:
            ts = [f"t{i}" for i in range(n)]
            order = " <= ".join(["0"] + ts + ["3000000"]) if n else "True"
            maxoff = 0 if sp is None else len(c07_lib.F(script[sp])) - 1
            parts = 1 if sp is None else 4
            for q in range(parts):
                lo = 0 if sp is None else 1 + (maxoff * q) // parts
                hi = 0 if sp is None else (maxoff * (q + 1)) // parts
                name = f"g_{tag}" + ("" if sp is None else f"_cut{sp}_p{q}")
                ato_sym = sym_ato and sp is None
                src.append(TPL.format(name=name, tparams="".join(f"{t}: int, " for t in ts), order=order, maxoff=f"{hi} and {lo} <= off",
                                      atopre="1 <= ato <= 2000" if ato_sym else "ato == 1000", script=script, tlist=", ".join(ts),
                                      split=-1 if sp is None else sp, reads=reads))
                obs.append({"name": name, "module_path": path, "function": name, "cap": 900, "opaque": True, "twin_cap": 120,
                            "meta": {"gateway_script": script, "cut_frame": sp, "cut_offset": [lo, hi], "ack_timeout_ms": "symbolic 1..2000" if ato_sym else "fixed",
                                     "reads": reads}})
    for tag, script, reads in SCRIPTS:
        if len(script) < 2:
            continue
        if quick and tag not in ("ack_data", "data_ack", "alive_ack_data", "data_ack_data2", "ack_foreign_data"):
            continue
        total = sum(len(c07_lib.F(k)) for k in script)
        parts = 4
        for q in range(parts):
            lo = (total + 1) * q // parts
            hi = (total + 1) * (q + 1) // parts - 1
            name = f"c_{tag}_p{q}"
            src.append(f'''
def {name}(t0: int, cut: int, gap: int) -> bool:
    """
    pre: 0 <= t0 <= 1500000
    pre: {lo} <= cut <= {hi}
    pre: 0 <= gap <= 1500000
    post: _
    """
    return run_coalesced({script!r}, t0, cut, gap, 1000, 1000000, {reads})
''')
            obs.append({"name": name, "module_path": path, "function": name, "cap": 900, "opaque": True, "twin_cap": 120,
                        "meta": {"gateway_script": script, "delivery": "one segment, or two segments cut at a symbolic byte offset of the whole stream",
                                 "cut_range": [lo, hi], "reads": reads}})
    for tag, uri, ato in (("default", "hsfz://127.0.0.1:6801?src_addr=0xf4&dst_addr=0x10", 1000),
                          ("250", "hsfz://127.0.0.1:6801?src_addr=0xf4&dst_addr=0x10&ack_timeout=250", 250),
                          ("2500", "hsfz://127.0.0.1?src_addr=0xf4&dst_addr=0x10&ack_timeout=2500", 2500)):
        name = f"via_connect_{tag}"
        src.append(f'''
def {name}(t_ack: int) -> bool:
    """
    pre: 0 <= t_ack <= 4000000
    post: _
    """
    return via_connect({uri!r}, {ato}, t_ack)
''')
        obs.append({"name": name, "module_path": path, "function": name, "cap": 300, "opaque": True, "twin_cap": 60,
                    "meta": {"set_up": "HSFZTransport.connect(" + uri + ")", "ack_instant": "symbolic", "configured_ack_timeout_ms": ato}})
    src.append('''
def header_codec(b: bytes) -> bool:
    """
    pre: len(b) == 8
    post: _
    """
    return codec(b)
''')
    obs.append({"name": "header_codec", "module_path": path, "function": "header_codec", "cap": 300, "opaque": True,
                "meta": {"functions": "HSFZHeader / HSFZDiagReqHeader pack+unpack", "bytes": "8 symbolic"}})
    with open(path, "w") as f:
        f.write("\n".join(src))
    return obs
