"""Harness bodies for C16 (partial claim, see DESIGN.md): model invariants of RandomUDSServer.randomize() for every outcome of
every random draw, isolation of the random sources, and answers as a function of (seed, session, request) only."""
from checks.vecu_lib import NDRNG, Clock, Coin, Draws, PoolExhausted, Vacuous, check, done, drive
from gallia.services.uds import server as SV
from gallia.services.uds.core import service as S
from gallia.services.uds.core.constants import UDSIsoServices
from gallia.transports import TargetURI

_URI = TargetURI("tcp-lines://127.0.0.1:20162")
_PARAMS = {}
DSC = UDSIsoServices.DiagnosticSessionControl


def params(mand_sessions, opt_sessions, mand_services, opt_services, p_service, p_sub):
    """pydantic RandomnessParameters, built once per obligation shape outside tracing"""
    key = (tuple(mand_sessions), tuple(opt_sessions), tuple(mand_services), tuple(opt_services), p_service, p_sub)
    if key not in _PARAMS:
        _PARAMS[key] = SV.RandomUDSServer.RandomnessParameters(
            mandatory_sessions=list(mand_sessions), optional_sessions=list(opt_sessions),
            mandatory_services=[UDSIsoServices(s) for s in mand_services], optional_services=[UDSIsoServices(s) for s in opt_services],
            p_session=0.05, p_service=p_service, p_sub_function=p_sub)
    return _PARAMS[key]


class Trap:
    """stands in for the global `random` module / builtins that must not influence a seeded virtual ECU"""

    def __init__(self, what, log):
        self.what = what
        self.log = log

    def __getattr__(self, name):
        self.log.append(self.what + "." + name)
        raise AssertionError("virtual ECU touched " + self.what + "." + name)

    def __call__(self, *a, **k):
        self.log.append(self.what)
        raise AssertionError("virtual ECU called " + self.what + "()")


class Env:
    """patches gallia.services.uds.server: RNG -> recording nondeterministic stub, global random / hash / id -> traps"""

    def __init__(self, draws, factory=None):
        self.draws = draws
        self.seedless = 0
        self.seeded = []
        self.log = []
        self.factory = factory

    def _rng(self, *args):
        if len(args) == 0:
            self.seedless += 1
        else:
            self.seeded.append(args)
        if self.factory is not None:
            return self.factory(*args)
        return NDRNG(self.draws, *args)

    def __enter__(self):
        self.saved = (SV.RNG, SV.time, SV.random, getattr(SV, "hash", None), getattr(SV, "id", None))
        SV.RNG = self._rng
        SV.time = Clock()
        SV.random = Trap("random", self.log)
        SV.hash = Trap("hash", self.log)
        SV.id = Trap("id", self.log)
        return self

    def __exit__(self, *exc):
        SV.RNG, SV.time, SV.random = self.saved[:3]
        for name, old in (("hash", self.saved[3]), ("id", self.saved[4])):
            if old is None:
                if name in vars(SV):
                    delattr(SV, name)
            else:
                setattr(SV, name, old)
        return False


def reachable(services, start=1):
    seen = {start}
    todo = [start]
    while todo:
        s = todo.pop()
        for t in services[s][DSC]:
            if t in services and t not in seen:
                seen.add(t)
                todo.append(t)
    return seen


def model_invariants(seed, prm, bools, ints):
    """(i) for every outcome of every draw of randomize()"""
    draws = Draws(ints, bools)
    try:
        with Env(draws) as env:
            srv = SV.RandomUDSServer(seed, prm)
            srv.randomize()
    except Vacuous:
        return True
    sv = srv.services
    check(env.seedless == 0, "randomize() used an unseeded RNG")
    check(all(len(a) >= 1 and a[0] is seed for a in env.seeded), "randomize() seeded its RNG with something else than the ECU seed")
    check(1 in sv, "default session not offered")
    for m in prm.mandatory_sessions:
        check(m in sv, "mandatory session missing")
    reach = reachable(sv)
    for s, services in sv.items():
        check(DSC in services and services[DSC] is not None, "DiagnosticSessionControl missing in an offered session")
        check(1 in services[DSC], "offered session cannot return to the default session")
        check(s in reach, "offered session not reachable from the default session")
        for t in services[DSC]:
            check(t in sv, "session transition to a session that is not offered")
        for ms in prm.mandatory_services:
            check(ms in services, "mandatory service missing")
        for sid, sfs in services.items():
            is_sf = int(sid) in (0x10, 0x11, 0x27, 0x28, 0x3E, 0x85, 0x19, 0x2C, 0x31)
            check((sfs is not None) == is_sf, "sub-function list present/absent for the wrong kind of service")
    return done()


class MemoStreams:
    """RNG stub whose stream is a function of its seeding arguments: equal arguments (decided by the solver) give the
    same stream, anything else an independent one; seedless instances are always fresh"""

    def __init__(self, draws):
        self.draws = draws
        self.streams = []  # (args, values)

    def make(self, *args):
        if len(args) > 0:
            for a, vals in self.streams:
                if len(a) == len(args) and all(x == y for x, y in zip(a, args)):
                    return _Replay(self.draws, vals)
        vals = []
        if len(args) > 0:
            self.streams.append((args, vals))
        return _Replay(self.draws, vals)


class _Replay(NDRNG):
    def __init__(self, draws, vals):
        super().__init__(draws)
        self.vals = vals
        self.pos = 0
        self.d = self

    # the NDRNG methods draw through self.d.int / self.d.bool: memoise them
    def int(self, a, b):
        if self.pos < len(self.vals):
            v = self.vals[self.pos]
        else:
            v = self.draws_int(a, b)
            self.vals.append(v)
        self.pos += 1
        return v

    def bool(self):
        if self.pos < len(self.vals):
            v = self.vals[self.pos]
        else:
            v = self.draws_bool()
            self.vals.append(v)
        self.pos += 1
        return v

    def add_seeds(self, *a):  # re-seeding: the continuation is again a function of all seeds
        self.seeds += list(a)


def same_answers(seed, session, sid, tail, model, ints, bools):
    """(iii) two servers with the same seed and model, same state, same request: byte-identical replies and equal states
    (except fresh security seeds)"""
    draws = Draws(ints, bools)
    req = bytes([sid]) + tail
    NDRNG.small_bytes = sid == 0x19
    memo = MemoStreams(draws)

    def factory(*args):
        r = memo.make(*args)
        r.draws_int = draws.int
        r.draws_bool = draws.bool
        return r

    try:
        with Env(draws, factory) as env:
            out = []
            for k in range(2):
                srv = SV.RandomUDSServer(seed, None if k >= 0 else None)
                srv.services = model
                srv.state.session = session
                srv.randomness_parameters = _DEFAULT_PARAMS
                srv.behavior = _DEFAULT_BEHAVIOR
                SV.time = Clock() if k == 0 else _LateClock()
                tr = SV.UDSServerTransport(srv, _URI)
                reply, _ = drive(tr.handle_request(req))
                out.append((reply, srv.state.session, srv.state.security_access_level))
    except Vacuous:
        return True
    (r0, s0, l0), (r1, s1, l1) = out
    check((r0 is None) == (r1 is None), "one instance answers, the other stays silent")
    check(s0 == s1 and l0 == l1, "states diverge")
    if r0 is not None:
        if r0[0] == 0x67 and len(r0) >= 2 and r0[1] % 2 == 1 and r1[0] == 0x67:
            check(r0[:2] == r1[:2], "security access replies differ beyond the fresh seed")
        else:
            check(r0 == r1, "two virtual ECUs with the same seed answer the same request differently")
    # isolation: seedless randomness only for security seeds
    parsed = S.UDSRequest.parse_dynamic(req)
    if not isinstance(parsed, S.RequestSeedRequest):
        check(env.seedless == 0, "unseeded randomness used outside security access")
    return done()


class _LateClock(Clock):
    def __init__(self):
        self.t = 50000.0


_DEFAULT_PARAMS = SV.RandomUDSServer.RandomnessParameters()
_DEFAULT_BEHAVIOR = SV.UDSServer.Behavior()
_T = SV.RandomUDSServer(0)


def seed_string(seed, session, pdu, other_seed, other_session):
    """the real stateful_rng: equal (seed, session, args) give equal seeding, different seed or session different seeding"""
    log = []

    class Rec:
        def __init__(self, *a):
            self.args = a

    saved = SV.RNG
    SV.RNG = Rec
    try:
        def mk(sd, se):
            import copy

            srv = copy.copy(_T)
            srv.seed = sd
            srv.state = SV.RNGEcuState()
            srv.state.session = se
            return srv.stateful_rng(pdu)

        a = mk(seed, session).args
        b = mk(seed, session).args
        c = mk(other_seed, other_session).args
    finally:
        SV.RNG = saved
    check(a == b, "stateful_rng is not a function of (seed, session, args)")
    check(len(a) >= 1, "stateful_rng builds an unseeded RNG")
    if (seed, session) != (other_seed, other_session):
        check(a != c, "different (seed, session) give the same random stream")
    return done()
