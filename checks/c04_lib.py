"""Harness for C04: the real UDSClient.request_unsafe coroutine driven against a scripted transport."""
import asyncio

from engine.hlib import check, done, drive
from gallia.services.uds.core import service as S
from gallia.services.uds.core.client import UDSClient, UDSRequestConfig
from gallia.services.uds.core.exception import MalformedResponse, MissingResponse, RequestResponseMismatch
from spec import client_model as M

REPLY = {M.BUSY: bytes([0x7F, 0x22, 0x21]), M.PENDING: bytes([0x7F, 0x22, 0x78]), M.MISMATCH: bytes([0x7F, 0x10, 0x11]),
         M.MALFORMED: bytes([0x62]), M.NEG: bytes([0x7F, 0x22, 0x31]), M.POS: bytes([0x62, 0xF1, 0x90, 0xAA])}


class ScriptedTransport:
    def __init__(self, script, clock):
        self.script = script
        self.pos = 0
        self.writes = 0
        self.reads = 0
        self.reconnects = 0
        self.clock = clock
        self.trace = []
        self.last_idx = -1

    def _next(self, timeout):
        ev = self.script[self.pos] if self.pos < len(self.script) else M.TIMEOUT
        self.last_idx = self.pos
        self.pos += 1
        if ev == M.TIMEOUT:
            self.clock[0] += timeout if timeout else 0
            raise TimeoutError()
        if ev == M.CONN:
            raise ConnectionResetError("scripted")
        if ev == M.EMPTY:
            return b""
        if ev == M.BUSY:
            return REPLY[M.BUSY]
        if ev == M.PENDING:
            return REPLY[M.PENDING]
        if ev == M.MISMATCH:
            return REPLY[M.MISMATCH]
        if ev == M.MALFORMED:
            return REPLY[M.MALFORMED]
        if ev == M.NEG:
            return REPLY[M.NEG]
        return REPLY[M.POS]

    async def request_unsafe(self, data, timeout=None, tags=None):
        self.writes += 1
        self.trace.append("w")
        return self._next(timeout)

    async def read(self, timeout=None, tags=None):
        self.reads += 1
        self.trace.append("r")
        return self._next(timeout)

    async def reconnect(self, timeout=None):
        self.reconnects += 1
        self.trace.append("c")
        return self


def source_limits():
    """the constants the statement calls 'currently 120 replies / max(timeout, 20 s)' are read from the current source
    (they are not part of the oracle for short scripts; long-run obligations use them to place their windows)"""
    import inspect
    import re

    src = inspect.getsource(UDSClient.request_unsafe)
    m = re.search(r"MAX_N_PENDING\s*=\s*(\d+)", src)
    w = re.search(r"waiting_time\s*=\s*([0-9.]+)", src)
    s = re.search(r"max\(timeout if timeout else 0,\s*(\d+)\)", src)
    return (int(m.group(1)) if m else None, float(w.group(1)) if w else None, int(s.group(1)) if s else None)


def run_client(script, client_retry, cfg_present, cfg_retry, timeout=1.0):
    clock = [0.0]
    tr = ScriptedTransport(script, clock)
    client = UDSClient(tr, timeout=timeout, max_retry=client_retry)
    cfg = UDSRequestConfig(max_retry=cfg_retry) if cfg_present else None
    request = S.ReadDataByIdentifierRequest(0xF190)
    orig_sleep = asyncio.sleep

    async def fake_sleep(d, result=None):
        clock[0] += d
        return result

    asyncio.sleep = fake_sleep
    try:
        try:
            resp = drive(client.request_unsafe(request, cfg))
            out = ("reply", resp)
        except RequestResponseMismatch as e:
            out = ("illegal:mismatch", e)
        except MalformedResponse as e:
            out = ("illegal:malformed", e)
        except MissingResponse as e:
            out = ("missing", e)
        except RuntimeError as e:
            out = ("stuck", e)
        except ConnectionError as e:
            out = ("raw-connection-error", e)
    finally:
        asyncio.sleep = orig_sleep
    return out, tr, clock[0], request


def model_outcome(script, client_retry, cfg_present, cfg_retry):
    mr = cfg_retry if cfg_present else client_retry
    npend, wait, sil = source_limits()
    return M.run(script, mr, npend, int(max(1.0, sil) / wait)).outcome


def connloss_in_poll(*a):
    """region of the known finding: a connection loss / empty read is consumed while polling after responsePending"""
    *script, client_retry, cfg_present, cfg_retry = a
    return model_outcome(list(script), client_retry, cfg_present, cfg_retry) == "connloss-in-poll"


def body(script, client_retry, cfg_present, cfg_retry):
    mr = cfg_retry if cfg_present else client_retry
    npend, wait, sil = source_limits()
    exp = M.run(script, mr, npend, int(max(1.0, sil) / wait))
    (kind, val), tr, elapsed, request = run_client(script, client_retry, cfg_present, cfg_retry)
    # transmissions
    check(1 <= tr.writes <= mr + 1, lambda: "request transmitted " + str(tr.writes) + " times with max_retry " + str(mr))
    check(tr.writes == exp.writes, lambda: "transmissions: " + str(tr.writes) + " expected " + str(exp.writes))
    check(tr.reconnects == exp.reconnects, lambda: "reconnects: " + str(tr.reconnects) + " expected " + str(exp.reconnects))
    # outcome
    if exp.outcome.startswith("reply:"):
        idx = int(exp.outcome[6:])
        check(kind == "reply", "a final reply received in time was dropped: outcome " + kind)
        check(tr.last_idx == idx, "returned reply is not the first final one")
        check(val.pdu == REPLY[script[idx]], "returned reply bytes differ from the scripted ones")
        check(val.trigger_request is request, "reply not bound to the request")
    elif exp.outcome == "missing":
        check(kind == "missing", "expected MissingResponse, got " + kind)
    elif exp.outcome == "missing:conn":
        check(kind == "missing", "expected MissingResponse, got " + kind)
        check(isinstance(val.__cause__, ConnectionError), "MissingResponse after a connection error lacks the ConnectionError cause")
    elif exp.outcome == "connloss-in-poll":
        check(kind == "missing", "connection loss while polling after responsePending must end as MissingResponse, got " + kind)
    else:
        check(kind == exp.outcome, "expected " + exp.outcome + ", got " + kind)
    # bounded time: sum of back-offs (0.2 * 2**i) + one timeout per silent transport call
    bound = sum(0.2 * 2**i for i in range(mr + 1)) + 1.0 * tr.writes + wait * tr.reads
    check(elapsed <= bound + 1e-9, lambda: "request took " + str(elapsed) + " s of loop time, bound " + str(bound))
    return done()


class CountingScript:
    """n pendings, then `tail` forever (lazy script so that long runs need no long list)"""

    def __init__(self, n, tail):
        self.n = n
        self.tail = tail

    def __len__(self):
        return 10**9

    def __getitem__(self, i):
        return M.PENDING if i < self.n else self.tail


def long_pending_final(n, final, mr, informational=False):
    """(a) up to 50 pendings followed by a final reply: that reply is returned after exactly one transmission."""
    (kind, val), tr, elapsed, request = run_client(CountingScript(n, final), mr, False, 0)
    if informational:
        # around the current limit: either the reply is returned or the stuck-pending error is raised; never a retransmission
        check(kind in ("reply", "stuck"), "unexpected outcome " + kind)
        check(tr.writes == 1, "retransmission around the pending limit")
        return done()
    check(kind == "reply", lambda: "final reply after " + str(n) + " pendings was dropped: " + kind)
    check(val.pdu == REPLY[final], "wrong reply bytes")
    check(tr.writes == 1, "responsePending caused a retransmission")
    check(tr.reads == n, lambda: "reads " + str(tr.reads))
    return done()


def endless_pending(mr):
    """(b) an endless stream of pendings ends with an error after a bounded number of polls, without retransmission."""
    (kind, val), tr, elapsed, request = run_client(CountingScript(10**9, M.PENDING), mr, False, 0)
    check(kind in ("stuck", "missing"), "endless pending stream ended as " + kind)
    check(tr.reads <= 1000, "more than 1000 polls")
    check(tr.writes == 1, "responsePending caused a retransmission")
    return done()


def pending_silence(mr, timeout):
    """(c) one pending, then silence: error after at most max(timeout, 20 s) + 60 s of loop time per attempt."""
    (kind, val), tr, elapsed, request = run_client(CountingScript(1, M.TIMEOUT), mr, False, 0, timeout=float(timeout))
    check(kind == "missing", "pending then silence ended as " + kind)
    check(tr.writes <= mr + 1, "too many transmissions")
    per_attempt = elapsed / tr.writes
    check(per_attempt <= max(timeout, 20) + 60, lambda: "silence after pending kept the request alive for " + str(per_attempt) + " s per attempt")
    return done()


class AlternatingScript:
    """pending, then k x (g timeouts, pending), then `final` forever"""

    def __init__(self, k, g, final):
        self.k, self.g, self.final = k, g, final

    def __len__(self):
        return 10**9

    def __getitem__(self, i):
        if i == 0:
            return M.PENDING
        j = i - 1
        if j < self.k * (self.g + 1):
            return M.PENDING if j % (self.g + 1) == self.g else M.TIMEOUT
        return self.final


def alternating(k, g, final, mr):
    """(e) isolated poll timeouts between pendings (each gap far below the silence limit) never add up:
    the final reply is returned after one transmission."""
    (kind, val), tr, elapsed, request = run_client(AlternatingScript(k, g, final), mr, False, 0)
    check(kind == "reply", lambda: "final reply after " + str(k) + " slow pendings was dropped: " + kind)
    check(val.pdu == REPLY[final], "wrong reply bytes")
    check(tr.writes == 1, "responsePending caused a retransmission")
    return done()
