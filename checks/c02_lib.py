"""Harness body for C02 (runs under CrossHair and on the plain interpreter)."""
from engine.hlib import check, done
from gallia.services.uds.core.service import RawResponse, UDSResponse
from spec import responses


def _get(obj, path):
    if path.endswith(".items()"):
        return list(getattr(obj, path[:-8]).items())
    return getattr(obj, path)


def body(pdu: bytes, via_class=None) -> bool:
    try:
        r = UDSResponse.parse_dynamic(pdu) if via_class is None else via_class.from_pdu(pdu)
    except Exception:
        return done()  # rejected: allowed
    if isinstance(r, RawResponse):
        check(r.pdu == pdu, "raw response does not carry the received bytes")
        return done()
    out = r.pdu  # an exception while re-serialising an accepted object is a violation
    check(out == pdu, "accepted as typed response but re-serialisation differs from the received bytes")
    sp = responses.lookup(pdu)
    check(sp is not None, "typed response for a byte string ISO gives no typed layout")
    ok, fields = sp
    check(ok, "byte string breaking the length/format rule of its service was accepted as a typed response")
    for path, exp in fields.items():
        got = _get(r, path)
        check(got == exp, "field " + path + " is not the value at its ISO position")
    return done()
