"""C12 (narrow) -- client and replaying server track state identically; replay cursor logic."""
import os

INFO = {
    "level": "model_checking",
    "bounds": {
        "quick": "(i) every typed response id x 2-4 symbolic reply bytes x symbolic (session, level): ECU.update_state vs DBUDSServer.update_state; "
                 "(ii) DBUDSServer.respond_after_default against a scripted connection: ecu/properties selection, state, cursor, first/second query hit, row id, NULL reply and request bytes symbolic",
        "thorough": "reply bytes up to 6",
    },
    "stubs": ["aiosqlite connection -> scripted stub (which row sqlite selects is NOT modelled)", "logger.* stripped"],
    "outside": ["end-to-end fidelity of a replay: JSON state matching, ordering and joins are evaluated by compiled sqlite3", "multi-run / multi-ECU databases"],
    "assumptions": [],
}


def obligations(tier, scratch):
    from gallia.services.uds.core import service as S

    quick = tier == "quick"
    path = os.path.join(scratch, "gen_c12.py")
    src = ["from checks.c12_lib import state_agreement, replay_step", ""]
    obs = []
    typed = sorted({int(s) + 0x40 for s, svc in S.UDSService._SERVICES.items() if s is not None} | {0x7F})
    for first in typed:
        for n in (2, 3, 4) if quick else (2, 3, 4, 5, 6):
            variants = [("", "")]
            if first == 0x59 and n >= 2:
                variants = [(f"_sf{sf:02x}", f"\n    pre: tail[0] == {sf}") for sf in (1, 2, 6)]
            for vt, extra in variants:
                name = f"state_{first:02x}_n{n}{vt}"
                src.append(f'''
def {name}(tail: bytes, session: int, level: int) -> bool:
    """
    pre: len(tail) == {n - 1}{extra}
    pre: 1 <= session <= 0x7E and 0 <= level <= 0x41
    post: _
    """
    return state_agreement(bytes([{first}]) + tail, session, level)
''')
                obs.append({"name": name, "module_path": path, "function": name, "cap": 600, "opaque": True, "twin_cap": 60,
                            "meta": {"response_first_byte": hex(first), "length": n, "symbolic": "reply bytes, session, level"}})
    src.append('''
def replay(has_ecu: bool, has_props: bool, session: int, level: int, last: int, first_hit: bool, second_hit: bool, row_id: int, reply_null: bool) -> bool:
    """
    pre: 1 <= session <= 0x7E and 0 <= level <= 0x41
    pre: -1 <= last <= 1000 and 0 <= row_id <= 1000
    post: _
    """
    return replay_step(has_ecu, has_props, session, level, last, first_hit, second_hit, row_id, reply_null, bytes([0xF1, 0x90]))
''')
    obs.append({"name": "replay", "module_path": path, "function": "replay", "cap": 900, "opaque": True, "twin_cap": 60,
                "meta": {"function": "DBUDSServer.respond_after_default", "symbolic": "selection flags, state, cursor, hits, row id, NULL reply"}})
    with open(path, "w") as f:
        f.write("\n".join(src))
    return obs
