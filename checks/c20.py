"""C20 -- target URIs, host:port, range expressions, integer notation."""
import os

INFO = {
    "level": "model_checking",
    "bounds": {
        "quick": "range expressions: 1-D templates of <= 3 pieces and 2-D templates of <= 3 outer elements over number tokens that stand for integers in [0,4] (3 tokens: [0,3], more: [0,2]) (utils.auto_int stubbed "
                 "for the tokens), through unravel, unravel_2d and both input forms of _process_ranges; notation: two symbolic digits in decimal, 0x, 0o, 0b, upper/lower case; host:port and "
                 "URIs: hosts {name, IPv4, ::1, 2001:db8::1}, ports symbolic in [0,4] u [65532,65535] or none, addresses symbolic in windows, an integer-valued parameter symbolic; hsfz, doip, isotp",
        "thorough": "tokens in [0,6] (3 tokens: [0,4], more: [0,2])",
    },
    "stubs": ["utils.auto_int maps the tokens A..F to symbolic integers (real auto_int for everything else)", "pydantic config construction runs untraced on the realised values"],
    "outside": ["arbitrary host text (urllib on symbolic text)", "ports / addresses outside the windows", "range expressions mixing comma and blank separators in one element"],
    "assumptions": ["spec/ranges.py transcribes the documented range semantics"],
}


def obligations(tier, scratch):
    quick = tier == "quick"
    hi = 4 if quick else 6
    path = os.path.join(scratch, "gen_c20.py")
    src = ["from checks.c20_lib import ranges_1d, ranges_2d, notation, hostport, uri_roundtrip", ""]
    obs = []

    def add(name, code, meta, cap=900, opaque=False):
        src.append(code)
        obs.append({"name": name, "module_path": path, "function": name, "cap": cap, "opaque": opaque, "twin_cap": 120, "meta": meta})

    def toks(template):
        return sorted({c for c in template if c in "ABCDEF"})

    def rfun(name, template, call):
        ts = toks(template)
        h = hi if len(ts) < 3 else (3 if len(ts) == 3 else 2)
        if not quick:
            h = hi if len(ts) < 3 else (4 if len(ts) == 3 else 2)
        params = ", ".join(f"{t.lower()}: int" for t in ts)
        pres = "\n".join(f"    pre: 0 <= {t.lower()} <= {h}" for t in ts)
        env = "{" + ", ".join(f"{t!r}: {t.lower()}" for t in ts) + "}"
        add(name, f'''
def {name}({params}) -> bool:
    """
{pres}
    post: _
    """
    return {call.format(env=env)}
''', {"template": template, "tokens": ts, "token_range": [0, hi]})

    for i, t in enumerate(["A", "A-B", "A,B", "A-B,C", "A,B-C", "A-B,C-D" if not quick else "A-B,C-C", "A,B,C"]):
        for via in ("unravel", "ranges_str", "ranges_list"):
            if quick and via != "unravel" and i not in (1, 3):
                continue
            rfun(f"r1_{i}_{via}", t, f"ranges_1d({t!r}, {{env}}, {via!r})")
    for i, t in enumerate(["A:B", "A:B-C", "A-B:C", "A:B A:C", "A", "A:B A", "A A:B", "0-1:C D:E", "1-2:C D:E", "2-1:C D:E", "A,B:C", "A:B,C", "A-B"]):
        rfun(f"r2_{i}", t, f"ranges_2d({t!r}, {{env}})")
    for kind, im, jm in (("hex", 15, 15), ("oct", 7, 7), ("bin", 1, 1), ("dec", 9, 9)):
        for q in range(4 if im >= 7 else 1):
            lo, hi_ = ((im + 1) * q // 4, (im + 1) * (q + 1) // 4 - 1) if im >= 7 else (0, im)
            name = f"notation_{kind}_q{q}"
            add(name, f'''
def {name}(i: int, j: int, upper: bool) -> bool:
    """
    pre: {lo} <= i <= {hi_} and 0 <= j <= {jm}
    post: _
    """
    return notation({kind!r}, i, j, upper)
''', {"notation": kind, "first_digit": [lo, hi_], "digits": "two symbolic digits", "case": "symbolic"})
    hosts = [("name", "ecu-gw.example"), ("v4", "192.0.2.7"), ("v6lo", "::1"), ("v6", "2001:db8::1")]
    win = "(0 <= port <= 4 or 65532 <= port <= 65535)"
    for tag, host in hosts:
        name = f"hostport_{tag}"
        add(name, f'''
def {name}(port: int) -> bool:
    """
    pre: {win}
    post: _
    """
    return hostport({host!r}, port)
''', {"host": host, "port": "symbolic window"})
        for scheme in ("hsfz", "doip", "isotp"):
            if scheme == "isotp" and tag != "name":
                continue
            host_ = "can0" if scheme == "isotp" else host
            pwins = [("np", "port == 0 and not port_present")] if scheme == "isotp" else \
                [("np", "port == 0 and not port_present"), ("plo", "0 <= port <= 3 and port_present"), ("phi", "65532 <= port <= 65535 and port_present")]
            awins = [("alo", "0 <= src <= 2"), ("ahi", "253 <= src <= 255" if scheme != "doip" else "0xfffd <= src <= 0xffff")]
            for ptag, ppre in pwins:
                for atag, apre in awins:
                    name = f"uri_{scheme}_{tag}_{ptag}_{atag}"
                    add(name, f'''
def {name}(port_present: bool, port: int, src: int, dst: int, x: int) -> bool:
    """
    pre: {ppre}
    pre: {apre}
    pre: dst == 16
    pre: 0 <= x <= 1 or x == 1000
    post: _
    """
    return uri_roundtrip({scheme!r}, {host_!r}, port_present, port, src, dst, x)
''', {"scheme": scheme, "host": host_, "port": ppre, "source_address": apre, "integer_parameter": "0, 1, 1000"})
    with open(path, "w") as f:
        f.write("\n".join(src))
    return obs
