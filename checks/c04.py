"""C04 -- one client request ends with the outcome its reply/fault sequence implies."""
import os

INFO = {
    "level": "model_checking",
    "bounds": {
        "quick": "event scripts of length 4 over the 9-letter alphabet (first one or two events concrete per obligation, the rest symbolic), client max_retry symbolic 0..3, "
                 "per-request config present/absent symbolic with its own symbolic max_retry 0..3; long runs: 1..50 pendings then a final reply; endless pendings; "
                 "pending then silence; windows of +-3 around the limits read from the source",
        "thorough": "scripts of length 5 (first two events concrete per obligation)",
    },
    "stubs": ["transport = scripted stub consuming one event per request_unsafe()/read() call", "asyncio.sleep advances a virtual clock",
              "reply bytes are concrete per event letter (codec is C01-C03's subject)", "logger.* stripped"],
    "outside": ["scripts longer than the bound except the stated long-run shapes", "real time", "the constants 120 / 20 s themselves (informational)"],
    "assumptions": ["reference state machine spec/client_model.py transcribes the statement"],
}


def obligations(tier, scratch):
    from checks import c04_lib

    npend, wait, sil = c04_lib.source_limits()
    if None in (npend, wait, sil):
        raise RuntimeError("cannot locate MAX_N_PENDING / waiting_time / silence limit in UDSClient.request_unsafe")
    quick = tier == "quick"
    L = 4 if quick else 5
    path = os.path.join(scratch, "gen_c04.py")
    src = ["from checks.c04_lib import body, long_pending_final, endless_pending, pending_silence, alternating", ""]
    obs = []
    import itertools

    prefixes = []
    for e0 in range(9):
        if e0 >= 5:  # final / illegal first event: the script ends at once
            prefixes.append((e0,))
        else:
            prefixes += [(e0, e1) for e1 in range(9)]
    for pre in prefixes:
        fixed = len(pre)
        allv = [f"e{i}" for i in range(L)]
        sym = allv[fixed:]
        name = f"script{L}_" + "".join(str(x) for x in pre)
        pres = "\n".join([f"    pre: e{i} == {x}" for i, x in enumerate(pre)] + [f"    pre: 0 <= {e} <= 8" for e in sym])
        script = "[" + ", ".join(allv) + "]"
        src.append(f'''
def {name}({", ".join(e + ": int" for e in allv)}, client_retry: int, cfg_present: bool, cfg_retry: int) -> bool:
    """
{pres}
    pre: 0 <= client_retry <= 3
    pre: 0 <= cfg_retry <= 3
    post: _
    """
    return body({script}, client_retry, cfg_present, cfg_retry)
''')
        obs.append({"name": name, "module_path": path, "function": name, "cap": 600, "opaque": True,
                    "meta": {"script_length": L, "fixed_prefix": list(pre), "symbolic": sym + ["client_retry", "cfg_present", "cfg_retry"]}})
    src.append(f'''
def long_final(n: int, final: int, mr: int) -> bool:
    """
    pre: 1 <= n <= 50
    pre: 7 <= final <= 8
    pre: 0 <= mr <= 2
    post: _
    """
    return long_pending_final(n, final, mr)


def slow_pendings1(k: int, final: int) -> bool:
    """
    pre: 1 <= k <= 45
    pre: 7 <= final <= 8
    post: _
    """
    return alternating(k, 1, final, 0)


def slow_pendings3(k: int, final: int) -> bool:
    """
    pre: 1 <= k <= 45
    pre: 7 <= final <= 8
    post: _
    """
    return alternating(k, 3, final, 0)


def endless(mr: int) -> bool:
    """
    pre: 0 <= mr <= 2
    post: _
    """
    return endless_pending(mr)


def silence10(mr: int) -> bool:
    """
    pre: 0 <= mr <= 2
    post: _
    """
    return pending_silence(mr, 10)


def silence20(mr: int) -> bool:
    """
    pre: 0 <= mr <= 2
    post: _
    """
    return pending_silence(mr, 20)


def silence30(mr: int) -> bool:
    """
    pre: 0 <= mr <= 2
    post: _
    """
    return pending_silence(mr, 30)


def window_pending(n: int, final: int) -> bool:
    """
    pre: {npend - 3} <= n <= {npend + 3}
    pre: 7 <= final <= 8
    post: _
    """
    return long_pending_final(n, final, 0, informational=True)
''')
    for nm, meta in (("long_final", {"pendings": "1..50 symbolic", "then": "final reply"}),
                     ("slow_pendings1", {"shape": "pending, k x (1 poll timeout, pending), final", "k": "1..45"}),
                     ("slow_pendings3", {"shape": "pending, k x (3 poll timeouts, pending), final", "k": "1..45"}), ("endless", {"pendings": "endless"}),
                     ("silence10", {"pending_then": "silence", "timeout": "10 s"}), ("silence20", {"pending_then": "silence", "timeout": "20 s"}),
                     ("silence30", {"pending_then": "silence", "timeout": "30 s"}),
                     ("window_pending", {"pendings": f"{npend - 3}..{npend + 3}", "informational": True})):
        obs.append({"name": nm, "module_path": path, "function": nm, "cap": 900, "opaque": True, "meta": meta})
    with open(path, "w") as f:
        f.write("\n".join(src))
    return obs
