"""C03 -- genuine replies accepted, foreign/stale replies refused (helpers.parse_pdu)."""
import os

INFO = {
    "level": "model_checking",
    "bounds": {
        "quick": "request = one of 1-4 templates per modelled service (parser-steering header bytes concrete, echoed identifiers and payload symbolic) "
                 "+ truncated and unmodelled requests; reply first byte in {sid+0x40, 0x7F, 2 foreign ids} x reply lengths 1..5 (0x7F: 1..4, foreign: 1,3), "
                 "all other reply bytes symbolic",
        "thorough": "reply lengths up to 8, 4 foreign ids",
    },
    "stubs": ["logger.* calls stripped", "symbolic ints rendered opaquely by hex()/format()"],
    "outside": ["longer PDUs", "which of mismatch/malformed is reported for an undecodable reply whose echo also differs (statement fixes only priority)",
                "treatment of replies to requests gallia cannot decode (only 'other service => mismatch' is asserted)"],
    "assumptions": ["echo rules in spec/matching.py transcribe ISO 14229-1 and the property statement"],
}

TEMPLATE = '''
def {name}(qt: bytes, pt: bytes) -> bool:
    \"\"\"
    pre: len(qt) == {nq}
    pre: len(pt) == {np}
    post: _
    \"\"\"
    return body({qexpr}, bytes([{first}]) + pt)
'''

# Request templates: concrete ints are header bytes that steer the parser (sub-function of services with one class per
# sub-function, addressAndLengthFormatIdentifier, dataFormatIdentifier); None = symbolic byte.  Echoed identifiers
# (session/reset/access type, DID, routine id, block counter, memory address/size) stay symbolic.
N_ = None
TEMPLATES = {
    0x10: [[N_]], 0x11: [[N_]], 0x27: [[N_], [N_, N_]], 0x28: [[N_, N_]], 0x3E: [[N_]], 0x85: [[N_], [N_, N_]],
    0x22: [[N_, N_], [N_, N_, N_, N_]], 0x23: [[0x11, N_, N_], [0x12, N_, N_, N_]],
    0x2C: [[0x01, N_, N_, N_, N_, N_, N_], [0x83, N_, N_], [0x03], [0x02, N_, N_, 0x11, N_, N_]],
    0x2E: [[N_, N_, N_]], 0x3D: [[0x11, N_, N_, N_], [0x21, N_, N_, N_, N_]], 0x14: [[N_, N_, N_]],
    0x19: [[0x01, N_], [0x8A], [0x06, N_, N_, N_, N_], [0x03, N_]],
    0x2F: [[N_, N_, N_], [N_, N_, N_, N_]], 0x31: [[0x01, N_, N_], [0x82, N_, N_, N_], [0x05, N_, N_]],
    0x34: [[0x00, 0x11, N_, N_]], 0x35: [[0x5A, 0x12, N_, N_, N_]], 0x36: [[N_], [N_, N_]], 0x37: [[], [N_]],
}
SHORT = {0x10: [[]], 0x22: [[N_]], 0x31: [[0x01, N_]], 0x2E: [[N_, N_]], 0x23: [[0x11, N_]], 0x19: [[0x01]]}
UNMODELLED = {0x00: [[N_]], 0x29: [[N_, N_]], 0x86: [[N_, N_]], 0xBA: [[N_]]}


def _qexpr(sid, tpl):
    parts, cur, k = [], [sid], 0
    for b in tpl:
        if b is None:
            if cur:
                parts.append("bytes([" + ", ".join(str(x) for x in cur) + "])")
                cur = []
            # merge consecutive symbolic bytes into one slice
            if parts and parts[-1].startswith("qt["):
                lo = int(parts[-1][3:parts[-1].index(":")])
                parts[-1] = f"qt[{lo}:{k + 1}]"
            else:
                parts.append(f"qt[{k}:{k + 1}]")
            k += 1
        else:
            cur.append(b)
    if cur:
        parts.append("bytes([" + ", ".join(str(x) for x in cur) + "])")
    return " + ".join(parts), k


def obligations(tier, scratch):
    from gallia.services.uds.core import service as S
    from gallia.services.uds.core.constants import UDSErrorCodes
    from spec import matching as M

    typed = sorted(int(s) for s, svc in S.UDSService._SERVICES.items() if s is not None)
    unm = set(typed) - set(M.TYPED_SIDS) | (set(typed) - set(TEMPLATES))
    if unm:
        raise RuntimeError(f"unmapped kind: services {sorted(map(hex, unm))} registered in gallia but not in the C03 tables")
    quick = tier == "quick"
    path = os.path.join(scratch, "gen_c03.py")
    src = ["from checks.c03_lib import body, nrc_total", ""]
    obs = []
    maxp = 5 if quick else 8
    jobs = []
    for sid in typed:
        for i, tpl in enumerate(TEMPLATES[sid]):
            jobs.append((sid, f"t{i}", tpl, True))
        for i, tpl in enumerate(SHORT.get(sid, [])):
            jobs.append((sid, f"short{i}", tpl, False))
    for sid, tpls in UNMODELLED.items():
        for i, tpl in enumerate(tpls):
            jobs.append((sid, f"u{i}", tpl, False))
    for sid, tag, tpl, full in jobs:
        qexpr, k = _qexpr(sid, tpl)
        foreign = [0x50 if sid != 0x10 else 0x62, sid] if quick else [0x50 if sid != 0x10 else 0x62, 0x00, sid, 0xFF]
        classes = [(sid + 0x40, range(1, maxp + 1), "own")]
        if full and tag == "t0" or not full:
            classes.append((0x7F, range(1, 5), "neg"))
        classes += [(f, (1, 3), f"foreign{f:02x}") for f in foreign]
        for first, plens, ctag in classes:
            if first > 0xFF:
                continue
            for np_ in plens:
                name = f"m_{sid:02x}_{tag}_{ctag}_p{np_}"
                qe, kk, tp = qexpr, k, tpl
                if quick and ctag == "neg" and np_ >= 3 and sid not in (0x10, 0x22, 0xBA):
                    # the response-code byte alone forks ~115 ways (enum lookup); in the quick tier the request bytes are
                    # concrete for these obligations (the negative path depends on the request's service id only)
                    tp = [1 if b is None else b for b in tpl]
                    qe, kk = _qexpr(sid, tp)
                src.append(TEMPLATE.format(name=name, nq=kk, np=np_ - 1, qexpr=qe, first=first))
                tpl_meta = tp
                obs.append({"name": name, "module_path": path, "function": name, "cap": 300, "opaque": True, "twin_cap": 30,
                            "meta": {"request": [hex(sid)] + [("sym" if b is None else hex(b)) for b in tpl_meta],
                                     "reply_first": hex(first), "reply_len": np_}})
    src.append('''
def nrc_map(code: int, sid: int) -> bool:
    \"\"\"
    pre: code in CODES
    pre: 0 <= sid <= 0xFF
    post: _
    \"\"\"
    return nrc_total(code, sid)
''')
    src.insert(1, "CODES = " + repr(sorted(int(c) for c in UDSErrorCodes)))
    obs.append({"name": "nrc_map", "module_path": path, "function": "nrc_map", "cap": 300, "opaque": True,
                "meta": {"codes": "every member of UDSErrorCodes (symbolic)", "sid": "symbolic 0..255"}})
    with open(path, "w") as f:
        f.write("\n".join(src))
    return obs
