"""Harness bodies for C14: the virtual ECU survives any request, stays in a session it offers, and gallia's own client
accepts what it sends back as the answer to exactly that request."""
from checks.vecu_lib import NDRNG, Draws, LazyServices, Patched, PoolExhausted, Vacuous, check, done, handle, make_server, two_session_model
from gallia.services.uds.core.exception import UDSException
from gallia.services.uds.core import service as S
from gallia.services.uds.core.constants import UDSIsoServices
from gallia.services.uds.helpers import parse_pdu


def _accepts(reply, req):
    # raises RequestResponseMismatch / MalformedResponse (a violation) if the client refuses the ECU's own answer
    # (gallia's exceptions render symbolic values in __str__, so they are converted into static assertion messages)
    try:
        r1 = parse_pdu(reply, S.RawRequest(req))
    except UDSException as e:
        name = type(e).__name__
        check(False, "client refuses the virtual ECU's reply to the raw request: " + name)
    check(r1.pdu == reply, "client re-serialises the accepted reply differently")
    typed = S.UDSRequest.parse_dynamic(req)
    try:
        r2 = parse_pdu(reply, typed)
    except UDSException as e:
        name = type(e).__name__
        check(False, "client refuses the virtual ECU's reply to the typed request: " + name)
    check(r2.trigger_request is typed, "reply not bound to the request")


def _exchange(srv, req):
    try:
        reply = handle(srv, req)  # must not raise
    except (Vacuous, PoolExhausted):
        raise
    except Exception as e:  # noqa: BLE001
        name = type(e).__name__
        check(False, "virtual ECU raised " + name + " (connection would be dropped)")
    check(srv.state.session in srv.supported_services, "virtual ECU left the sessions it offers")
    if reply is not None:
        check(len(reply) >= 1, "empty reply")
        _accepts(reply, req)
    return reply


def step(sid, tail, off, cur, here, there, ha, ho, sfa, sfo, t12, t22, ints, bools):
    """one request from an arbitrary valid state of a symbolic two-session model"""
    draws = Draws(ints, bools)
    req = bytes([sid]) + tail
    NDRNG.small_bytes = sid == 0x19
    try:
        model = two_session_model(sid, cur, here, there, ha, ho, sfa, sfo, t12, t22)
        srv = make_server(model, off, draws, session=cur)
        with Patched(draws):
            _exchange(srv, req)
    except Vacuous:
        return True
    return done()


def history(first, p1, key, sid, tail, cur, here, ha, sfa, ints, bools):
    """a state-changing first exchange (session change / seed request / seed+key / reset), then a symbolic request"""
    draws = Draws(ints, bools)
    req = bytes([sid]) + tail
    NDRNG.small_bytes = sid == 0x19
    sa = UDSIsoServices.SecurityAccess
    rst = UDSIsoServices.EcuReset
    try:
        model = two_session_model(sid, cur, here, here, ha, ha, sfa, sfa, True, True)
        for m in model.values():  # security access levels 1/2 and reset are offered everywhere in history obligations
            if sid != 0x27:
                dict.__setitem__(m, sa, [1, 2])
            if sid != 0x11:
                dict.__setitem__(m, rst, [1, 2, 3, 4])
        srv = make_server(model, (), draws, session=cur)
        with Patched(draws):
            if first == 1:
                _exchange(srv, bytes([0x10, p1]))
            elif first == 2:
                _exchange(srv, bytes([0x27, 0x01]))
            elif first == 3:
                r = _exchange(srv, bytes([0x27, 0x01]))
                if r is not None and r[0] == 0x67:
                    _exchange(srv, bytes([0x27, 0x02]) + (r[2:] if key else b"\\x00"))
            elif first == 4:
                _exchange(srv, bytes([0x11, p1]))
            _exchange(srv, req)
    except Vacuous:
        return True
    return done()


_MODELS = {}


def real_model(seed):
    """the model the real randomize() produces for a concrete seed (built once, outside tracing)"""
    if seed not in _MODELS:
        from gallia.services.uds import server as SV

        s = SV.RandomUDSServer(seed)
        s.randomize()
        _MODELS[seed] = s.services
    return _MODELS[seed]


def real_step(seed, session, sid, tail, ints, bools):
    """one request against the concrete model of a real seed, start session concrete"""
    draws = Draws(ints, bools)
    req = bytes([sid]) + tail
    NDRNG.small_bytes = sid == 0x19
    try:
        srv = make_server(real_model(seed), (), draws, session=session)
        with Patched(draws):
            _exchange(srv, req)
    except Vacuous:
        return True
    return done()
