"""Harness for C17 (partial claim): PenlogReader navigation and the hr entry point on an in-memory stand-in for the mmap'ed log,
record priorities symbolic; level <-> priority mapping; lines produced by the real formatter are read back exactly."""
import argparse
import logging
from pathlib import Path

import gallia.command  # noqa: F401
from engine.hlib import check, concrete, done, untraced
from gallia import log as L
from gallia.cli import hr

TEXTS = ["plain", "", "two\nlines", 'quote " and \\ backslash', "<3> looks like a prefix", "nul\x00tab\t", "non-bmp \U0001F697 ü", "x" * 10000,
         "lone surrogate \udc80 (from surrogateescape decoding)"]
LEVELS = [L.Loglevel.TRACE, L.Loglevel.DEBUG, L.Loglevel.INFO, L.Loglevel.NOTICE, L.Loglevel.WARNING, L.Loglevel.ERROR, L.Loglevel.CRITICAL]
_FMT = L._JSONFormatter()


def make_line(i, level, text, tags):
    """the JSON part of line i exactly as the real formatter produces it"""
    rec = logging.LogRecord("gallia.test", int(level), "/x/y.py", 10 + i, text, None, None, func="f")
    rec.created = 1_700_000_000.5 + i
    if tags is not None:
        rec.tags = tags
    return _FMT.format(rec)


class Capture:
    """stands in for _ZstdFileHandler.file: what emit() writes"""

    def __init__(self):
        self.chunks = []

    def write(self, b):
        self.chunks.append(b)


def emitted(level, text, tags):
    """framing by the real _ZstdFileHandler.emit"""
    h = object.__new__(L._ZstdFileHandler)
    logging.Handler.__init__(h)
    h.setFormatter(_FMT)
    h.file = Capture()
    rec = logging.LogRecord("gallia.test", int(level), "/x/y.py", 10, text, None, None, func="f")
    rec.created = 1_700_000_000.5
    if tags is not None:
        rec.tags = tags
    h.emit(rec)
    return b"".join(h.file.chunks)


class FakeMmap:
    """in-memory stand-in for mmap: a sequence of newline terminated lines; seek/tell in byte offsets of line starts"""

    def __init__(self, lines):
        self.lines = lines
        self.starts = []
        off = 0
        for ln in lines:
            self.starts.append(off)
            off += len(ln)
        self.total = off
        self.pos = 0

    def tell(self):
        return self.pos

    def seek(self, off, whence=0):
        self.pos = self.total if whence == 2 else off

    def readline(self):
        for i, s in enumerate(self.starts):
            if s == self.pos:
                self.pos += len(self.lines[i])
                return self.lines[i]
        return b""

    def find(self, sub, start=0):
        """offset of the next newline at or after start (lines are newline terminated except possibly the last)"""
        for i, s0 in enumerate(self.starts):
            end = s0 + len(self.lines[i]) - 1
            if end >= start and self.lines[i].endswith(b"\n"):
                return end
        return -1

    def close(self):
        pass


def reader_for(lines):
    r = object.__new__(L.PenlogReader)
    r.path = Path("mem")
    r.raw_file = FakeMmap([])
    r.file_mmap = FakeMmap(lines)
    r._current_line = b""
    r._current_record = None
    r._current_record_index = 0
    r._parsed = False
    r._record_offsets = []
    return r


_JSON = [make_line(i, LEVELS[(i * 3) % 7], "msg%d" % i, ["t"] if i % 2 else None).encode() for i in range(6)]
_JSON_PRIO = [L.PenlogPriority.from_level(LEVELS[(i * 3) % 7]).value for i in range(6)]


_PARSED = [L.PenlogRecord.parse_json(j) for j in _JSON]


class FastParse:
    """navigation obligations: the JSON body of the six concrete lines is parsed once at import (the real parser is the
    subject of the round-trip obligation); lines are recognised by their concrete body"""

    def __enter__(self):
        self.saved = L.PenlogRecord.__dict__["parse_json"]

        def parse_json(cls, data):
            for i, body in enumerate(_JSON):
                if data.endswith(body) or data.endswith(body + b"\n"):
                    return _PARSED[i]
            raise ValueError("unknown line")

        L.PenlogRecord.parse_json = classmethod(parse_json)
        return self

    def __exit__(self, *exc):
        L.PenlogRecord.parse_json = self.saved
        return False


def build(k, prios, prefixed, last_nl=True):
    """k lines; line i carries the syslog style prefix <p_i> (p_i symbolic) iff prefixed[i]"""
    lines, eff = _build(k, prios, prefixed)
    if k and not last_nl:
        lines[-1] = lines[-1][:-1]  # plain / .gz input whose last record lacks the trailing newline
    return lines, eff


def _build(k, prios, prefixed):
    lines, eff = [], []
    for i in range(k):
        if prefixed[i]:
            lines.append(b"<" + bytes([48 + prios[i]]) + b">" + _JSON[i] + b"\n")
            eff.append(prios[i])
        else:
            lines.append(_JSON[i] + b"\n")
            eff.append(_JSON_PRIO[i])
    return lines, eff


def navigate(mode, k, prios, prefixed, threshold, n, last_nl=True):
    """hr's entry point (_main) in the given mode against a k-record log"""
    lines, eff = build(k, prios, prefixed, last_nl)
    reader = reader_for(lines)
    out = []
    saved = (hr.parse_args, hr.PenlogReader, getattr(hr, "print", None))
    hr.parse_args = lambda: argparse.Namespace(FILE=[Path("-")], priority=L.PenlogPriority(threshold), tail=mode == "tail", head=mode == "head",
                                               reverse=mode == "reverse", lines=n, color="never")
    hr.PenlogReader = lambda path: reader
    hr.print = lambda rec, end="", **kw: out.append(rec)
    try:
        with FastParse():
            rc = hr._main()
    finally:
        hr.parse_args, hr.PenlogReader = saved[:2]
        if saved[2] is None:
            del hr.print
        else:
            hr.print = saved[2]
    check(rc == 0, "hr reports an error")
    idx = list(range(k))
    if mode == "reverse":
        idx = idx[::-1]
    elif mode == "tail":
        idx = idx[max(0, k - n):]
    sel = [i for i in idx if eff[i] <= threshold]
    if mode == "head":
        sel = sel[:n]
    got = [int(r.data[3:]) for r in out]
    check(got == sel, lambda: mode + " reading yields records " + repr(got) + " expected " + repr(sel))
    check(len(reader) == k, "len(reader) differs from the number of records")
    return done()


def offsets(k, prios, prefixed, threshold, offset, reverse):
    """PenlogReader.records(priority, offset, reverse) for offsets inside the log"""
    lines, eff = build(k, prios, prefixed)
    reader = reader_for(lines)
    with FastParse():
        got = [int(r.data[3:]) for r in reader.records(L.PenlogPriority(threshold), offset=offset, reverse=reverse)]
    start = offset if offset >= 0 else max(k + offset, 0)
    idx = list(range(start, -1, -1)) if reverse else list(range(start, k))
    sel = [i for i in idx if eff[i] <= threshold]
    check(got == sel, lambda: "records(offset=" + str(offset) + ", reverse=" + str(reverse) + ") yields " + repr(got) + " expected " + repr(sel))
    return done()


def levels(level_index, prio):
    """level <-> priority mapping is a bijection on the seven levels; other priorities have no level"""
    lv = LEVELS[level_index]
    p = L.PenlogPriority.from_level(int(lv))
    check(p.to_level() == lv, "to_level(from_level(l)) != l")
    check(p.value == 8 - level_index if level_index < 2 else True, "")
    pp = L.PenlogPriority(prio)
    if prio >= 2:
        check(L.PenlogPriority.from_level(int(pp.to_level())) == pp, "from_level(to_level(p)) != p")
    else:
        try:
            pp.to_level()
            check(False, "EMERGENCY/ALERT mapped to a python level")
        except ValueError:
            pass
    return done()


def roundtrip(level_index, text_index, with_tags, with_prefix):
    """a record written by the real formatter + emit framing is read back with the same text, level, tags and timestamp"""
    level_index, text_index, with_tags, with_prefix = concrete((level_index, text_index, with_tags, with_prefix))
    with untraced():  # json / datetime are C code: solver-driven case split over the indices, concrete execution per case
        return _roundtrip(level_index, text_index, with_tags, with_prefix)


def _roundtrip(level_index, text_index, with_tags, with_prefix):
    lv = LEVELS[level_index]
    text = TEXTS[text_index]
    tags = ["uds", "a b"] if with_tags else None
    line = emitted(lv, text, tags)
    check(line.endswith(b"\n") and line.count(b"\n") == 1, "a log record does not occupy exactly one line")
    if not with_prefix:
        line = line[line.index(b">") + 1:]
    prio = L.PenlogRecord.parse_priority(line)
    rec = L.PenlogRecord.parse_json(line)
    want = L.PenlogPriority.from_level(int(lv))
    check((prio == want.value) if with_prefix else (prio is None), "priority prefix")
    check(rec.priority == want and rec.data == text and rec.tags == tags, "record read back differs (text / level / tags)")
    check(rec.datetime.timestamp() == 1_700_000_000.5, "timestamp differs")
    check(rec.priority.to_level() == lv, "level differs")
    return done()
