"""Harness for C09: the real SessionsScanner.main / _recover_stack against an ECU whose session-transition graph is symbolic."""
import types

from engine.hlib import check, done, drive
from gallia.commands.scan.uds.sessions import SessionsScanner
from gallia.services.uds.core import service as S
from gallia.services.uds.core.constants import UDSErrorCodes
from spec.session_model import reachable

NRCS = (UDSErrorCodes.subFunctionNotSupported, UDSErrorCodes.subFunctionNotSupportedInActiveSession, UDSErrorCodes.conditionsNotCorrect)


class Skip:
    """the --skip list: every session id outside the model's nodes is listed (keeps the 127-id loop cheap; the ECU would
    refuse them with subFunctionNotSupported anyway) plus the nodes the obligation skips"""

    def __init__(self, nodes, skipped):
        self.nodes, self.skipped = nodes, skipped

    def __contains__(self, s):
        if s not in self.nodes:
            return True
        return s in self.skipped

    def __iter__(self):
        return iter([s for s in range(1, 0x80) if s in self])


class GraphECU:
    def __init__(self, edges, refusal):
        self.edges = edges  # (from, to) -> bool (symbolic)
        self.refusal = refusal  # to -> index into NRCS (symbolic)
        self.current = 1
        self.requests = []
        self.steps = 0

    async def set_session(self, level, config=None, use_db=True):
        self.steps += 1
        check(self.steps < 5000, "scan does not terminate")
        self.requests.append((self.current, level))
        if self.edges.get((self.current, level), False):
            self.current = level
            return S.DiagnosticSessionControlResponse(level)
        k = self.refusal.get(level, 0)
        nrc = NRCS[0] if k == 0 else (NRCS[1] if k == 1 else NRCS[2])
        return S.NegativeResponse(0x10, nrc)


class DB:
    def __init__(self):
        self.transitions = []

    async def insert_session_transition(self, session, stack):
        self.transitions.append((session, list(stack)))


def scan(nodes, edges, refusal, depth, thorough, skipped):
    ecu = GraphECU(edges, refusal)
    sc = object.__new__(SessionsScanner)
    sc.config = types.SimpleNamespace(depth=depth, sleep=0, skip=Skip(nodes, skipped), with_hooks=False, reset=None, thorough=thorough, timeout=1)
    sc.ecu = ecu
    sc.db_handler = DB()
    sc.result = []
    try:
        drive(sc.main())
    except SystemExit:
        check(False, "scan gave up (sys.exit) although every session can return to the default session")
    # -- oracle
    usable = {(s, t): v for (s, t), v in edges.items() if t not in skipped and s not in skipped}
    exp = reachable(nodes, usable, depth)
    got = list(sc.result)
    check(len(got) == len(set(got)), "a session is reported twice")
    for n in nodes:
        check((n in got) == (n in exp), lambda: "session " + str(n) + (" not reported although reachable" if n in exp else " reported although not reachable within the depth limit"))
    for s in got:
        check(s in nodes, "reported a session the ECU does not have")
    # each reported session comes with a sequence of session changes that really leads there
    seen = set()
    for session, stack in sc.db_handler.transitions:
        if session in seen or session not in got:
            continue
        seen.add(session)
        check(len(stack) >= 1 and stack[0] == 1, "stack does not start at the default session")
        check(len(stack) <= depth, "reported path is longer than the depth limit")
        cur = 1
        for nxt in stack[1:] + [session]:
            check(edges.get((cur, nxt), False), "reported path uses a session change the ECU refuses")
            cur = nxt
    for s in got:
        check(s in seen, "reported session without a path")
    # skipped sessions are never requested
    for frm, to in ecu.requests:
        check(to not in skipped, "a session from the skip list was requested")
        check(to in nodes, "request outside the model (harness)")
    return done()
