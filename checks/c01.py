"""C01 -- requests serialise to the ISO 14229-1 layout and parse back losslessly."""
import os

INFO = {
    "level": "model_checking",
    "bounds": {
        "quick": "every request kind x all in-range integer fields symbolic x both suppress settings; records n in {0,1,3}; groups k in {1,2}; "
                 "widths (wa,ws) in {(1,1),(4,2),(15,15),(1,15),(15,1)}; minimal-format bands (1,1),(2,1),(3,2); one out-of-range obligation per integer field",
        "thorough": "records n in {0,1,2,3,4,6,8}; groups k in 1..3; 24 width pairs; bands up to (15,15); client-method tie for every shape",
    },
    "stubs": ["logger.* calls stripped", "symbolic ints rendered opaquely by hex()/format() (exception messages only)"],
    "outside": ["records longer than 8 bytes / more than 3 groups (layout is position independent beyond the header)",
                "empty data for WriteMemoryByAddress / empty security key (ISO forbids, gallia does not document)"],
    "assumptions": ["reference layouts in spec/requests.py transcribe ISO 14229-1 correctly"],
}


def _sig(params):
    return ", ".join(f"{n}: {t}" for n, t, _, _ in params)


def _pres(sh, skip=None, negate=None):
    pres = []
    for n, t, lo, hi in sh["params"]:
        if t == "int":
            if n == negate:
                pres.append(f"not ({lo} <= {n} <= {hi})")
            elif n != skip:
                pres.append(f"{lo} <= {n} <= {hi}")
        elif t == "bytes":
            pres.append(f"len({n}) == {sh['blens'][n]}")
    return pres


def _dict(d):
    return "{" + ", ".join(f"{k!r}: {v}" for k, v in d.items()) + "}"


def obligations(tier, scratch):
    from gallia.services.uds.core import service as S
    from spec import requests as R

    quick = tier == "quick"

    # kinds a user can construct: registered classes + public module-level subclasses
    registered = set()
    for sid, svc in S.UDSService._SERVICES.items():
        if sid is None:
            continue
        if svc.Request is not None:
            registered.add(svc.Request.__name__)
        for v in vars(svc).values():
            if isinstance(v, type) and getattr(v, "Request", None) is not None:
                registered.add(v.Request.__name__)
    import inspect

    public = {n for n, c in vars(S).items() if inspect.isclass(c) and issubclass(c, S.UDSRequest) and not n.startswith("_")
              and not inspect.isabstract(c) and n not in ("UDSRequest", "RawRequest", "SubFunctionRequest", "SpecializedSubFunctionRequest", "RoutineControlRequest")}
    kinds = registered | public
    unm = kinds - set(R.KINDS)
    if unm:
        raise RuntimeError(f"unmapped kind: request classes {sorted(unm)} exist in gallia but not in spec/requests.py")
    gone = set(R.KINDS) - kinds
    if gone:
        raise RuntimeError(f"request classes {sorted(gone)} named in spec/requests.py are missing from gallia")
    path = os.path.join(scratch, "gen_c01.py")
    src = ["from checks.c01_lib import roundtrip, refused, B, N, SF, U, S", ""]
    obs = []
    seen_oor = set()
    for sh in R.shapes(tier):
        cls = sh["cls"]
        name = f"req_{cls}_{sh['shape']}"
        pres = _pres(sh) + sh.get("extra_pre", []) + sh.get("band_pre", [])
        fields = sh["fields"]
        dyn = sh.get("dyn", fields)
        own = sh.get("own", fields)
        doc = "\n".join(f"    pre: {p}" for p in pres)
        src.append(f'''
def {name}({_sig(sh["params"])}) -> bool:
    """
{doc}
    post: _
    """
    return roundtrip(S.{cls}, lambda: S.{cls}({sh["ctor"]}), {sh["expect"]}, {_dict(fields)}, {_dict(dyn)}, {_dict(own)}, {sh["sid"]})
''')
        nsym = sum(1 for p in sh["params"])
        heavy = "bitlen" in sh.get("tags", []) or "w15" in sh["shape"] or "_15" in sh["shape"]
        obs.append({"name": name, "module_path": path, "function": name, "cap": 1200 if sh["shape"].endswith("_both") else (600 if heavy else 240), "opaque": True,
                    "meta": {"class": cls, "shape": sh["shape"], "symbolic_params": [p[0] for p in sh["params"]]}})
        # out-of-range: one obligation per integer field, on the first shape of each (class, field)
        for n, t, lo, hi in sh["params"]:
            if t != "int" or (cls, n) in seen_oor:
                continue
            if "bitlen" in sh.get("tags", []):
                continue
            seen_oor.add((cls, n))
            oname = f"oor_{cls}_{sh['shape']}_{n}"
            opres = _pres(sh, negate=n) + sh.get("extra_pre", [])
            doc = "\n".join(f"    pre: {p}" for p in opres)
            src.append(f'''
def {oname}({_sig(sh["params"])}) -> bool:
    """
{doc}
    post: _
    """
    return refused(lambda: S.{cls}({sh["ctor"]}))
''')
            obs.append({"name": oname, "module_path": path, "function": oname, "cap": 240, "opaque": True,
                        "meta": {"class": cls, "shape": sh["shape"], "out_of_range": n}})
        for i, ep in enumerate(sh.get("extra_pre", [])):
            if (cls, "extra", i) in seen_oor:
                continue
            seen_oor.add((cls, "extra", i))
            oname = f"oor_{cls}_{sh['shape']}_rule{i}"
            opres = _pres(sh) + [f"not ({ep})"]
            doc = "\n".join(f"    pre: {p}" for p in opres)
            src.append(f'''
def {oname}({_sig(sh["params"])}) -> bool:
    """
{doc}
    post: _
    """
    return refused(lambda: S.{cls}({sh["ctor"]}))
''')
            obs.append({"name": oname, "module_path": path, "function": oname, "cap": 240, "opaque": True,
                        "meta": {"class": cls, "shape": sh["shape"], "violated_rule": ep}})
    # client-level tie: every UDSClient service method that builds one of the request kinds
    import ast
    import textwrap

    from gallia.services.uds.core.client import UDSClient

    methods = {}
    for mname, fn in vars(UDSClient).items():
        if not inspect.iscoroutinefunction(fn) or mname.startswith("_") or mname in ("request", "request_unsafe", "connect", "reconnect", "reconnect_unsafe", "send_raw"):
            continue
        try:
            tree = ast.parse(textwrap.dedent(inspect.getsource(fn)))
        except Exception:  # noqa: BLE001
            continue
        built = [n.func.attr for n in ast.walk(tree) if isinstance(n, ast.Call) and isinstance(n.func, ast.Attribute)
                 and isinstance(n.func.value, ast.Name) and n.func.value.id == "service" and n.func.attr.endswith("Request")]
        if len(built) == 1:
            methods[mname] = (built[0], inspect.signature(fn))
    src[0] = "from checks.c01_lib import roundtrip, refused, client_tie, B, N, SF, U, S"
    tied, untied = set(), []
    seen_shapes = set()
    for sh in R.shapes(tier):
        for mname, (cname, sig) in methods.items():
            if cname != sh["cls"] or (mname, sh["shape"]) in seen_shapes:
                continue
            params = [p for p in sig.parameters.values() if p.name not in ("self", "config")]
            fields = sh["fields"]
            if any(p.default is inspect.Parameter.empty and p.name not in fields for p in params):
                untied.append(mname)
                continue
            if quick and mname in tied and not ("bitlen" in sh.get("tags", [])):
                continue  # quick: one shape per method (+ the computed-format shapes)
            seen_shapes.add((mname, sh["shape"]))
            tied.add(mname)
            kw = "{" + ", ".join(f"{p.name!r}: {fields[p.name]}" for p in params if p.name in fields) + "}"
            name = f"cli_{mname}_{sh['shape']}"
            pres = _pres(sh) + sh.get("extra_pre", []) + sh.get("band_pre", [])
            doc = "\n".join(f"    pre: {p}" for p in pres)
            src.append(f'''
def {name}({_sig(sh["params"])}) -> bool:
    """
{doc}
    post: _
    """
    return client_tie({mname!r}, {kw}, {sh["expect"]})
''')
            obs.append({"name": name, "module_path": path, "function": name, "cap": 600, "opaque": True,
                        "meta": {"client_method": mname, "request_class": cname, "shape": sh["shape"]}})
    INFO["client_methods_tied"] = sorted(tied)
    INFO["client_methods_not_tied"] = sorted(set(methods) - tied)
    with open(path, "w") as f:
        f.write("\n".join(src))
    return obs
