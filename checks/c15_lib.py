"""Harness for C15 (control-flow claim): the real BaseCommand.entry_point / AsyncScript.run / Scanner.teardown / run_hook /
_db_* with a symbolic fault plan; subprocess, flock, files, log handlers and the database are recording stubs."""
import json
import types
from pathlib import Path
from subprocess import CalledProcessError

import gallia.command  # noqa: F401
from engine.hlib import check, concrete, done, drive
from gallia import exitcodes
from gallia.command import base as B
from gallia.services.uds.core import service as S
from gallia.services.uds.core.exception import MissingResponse

NONE, SYSEXIT_INT, SYSEXIT_STR, CONNERR, UDSEXC, OTHER, KBDINT = range(7)
SETUP, MAIN, TEARDOWN = "setup", "main", "teardown"


def raise_fault(kind, n):
    if kind == SYSEXIT_INT:
        raise SystemExit(n)
    if kind == SYSEXIT_STR:
        raise SystemExit("fatal: something")
    if kind == CONNERR:
        raise ConnectionResetError("scripted")
    if kind == UDSEXC:
        raise MissingResponse(S.RawRequest(b"\x3e\x00"))
    if kind == OTHER:
        raise ValueError("scripted")
    if kind == KBDINT:
        raise KeyboardInterrupt()


class Events:
    def __init__(self):
        self.log = []

    def add(self, *e):
        self.log.append(e)

    def count(self, name):
        return sum(1 for e in self.log if e[0] == name)

    def index(self, name):
        for i, e in enumerate(self.log):
            if e[0] == name:
                return i
        return -1


class FakePath:
    def __init__(self, ev, name="artifacts"):
        self.ev, self.name = ev, name

    def joinpath(self, n):
        return FakePath(self.ev, self.name + "/" + str(n))

    def write_text(self, text):
        self.ev.add("write", self.name, text)

    def __str__(self):
        return self.name


class StubDB:
    def __init__(self, ev, path):
        self.ev = ev
        self.connection = None
        self.meta = None

    async def connect(self):
        self.connection = object()
        self.ev.add("db_connect")

    async def insert_run_meta(self, **kw):
        self.meta = 1
        self.ev.add("db_insert_run_meta")

    async def complete_run_meta(self, end_time, exit_code, path):
        self.ev.add("db_complete_run_meta", exit_code)

    async def disconnect(self):
        self.ev.add("db_disconnect")
        self.connection = None


class FakeTransport:
    def __init__(self, ev):
        self.ev = ev
        self.is_closed = False

    async def close(self):
        self.ev.add("transport_close")
        self.is_closed = True


def make_command(kind, ev, plan):
    """kind: 'script' (AsyncScript) or 'scanner' (Scanner with the real teardown)"""
    base = B.AsyncScript if kind == "script" else B.Scanner

    class Cmd(base):
        async def setup(self):
            ev.add("setup")
            self.dumpcap = None
            plan(SETUP)  # e.g. the connection attempt fails: the transport attribute is never assigned
            self.transport = FakeTransport(ev)

        async def main(self):
            ev.add("main")
            plan(MAIN)

        async def teardown(self):
            ev.add("teardown")
            if kind == "scanner":
                await B.Scanner.teardown(self)
            plan(TEARDOWN)

        def prepare_artifacts_dir(self):
            return FakePath(ev) if self._artifacts else None

        def _open_lockfile(self, path):
            ev.add("lock_open")
            return 5

        async def _aquire_flock(self):
            ev.add("lock_acquire")

        def _release_flock(self):
            ev.add("lock_release")

    return Cmd


def entry(kind, p_setup, p_main, p_teardown, n, artifacts, db, lock, hooks, pre_fails, post_fails):
    n, p_setup, p_main, p_teardown = concrete((n, p_setup, p_main, p_teardown))  # exit codes flow into `match ... case int()`
    ev = Events()

    def plan(point):
        k = {SETUP: p_setup, MAIN: p_main, TEARDOWN: p_teardown}[point]
        raise_fault(k, n)

    Cmd = make_command(kind, ev, plan)
    cmd = object.__new__(Cmd)
    cmd.id = "cmd"
    cmd._artifacts = artifacts
    cmd.config = types.SimpleNamespace(lock_file=Path("/tmp/x.lock") if lock else None, hooks=hooks, pre_hook="pre.sh", post_hook="post.sh",
                                       db=Path("/tmp/x.db") if db else None, artifacts_base=None, power_supply=None, dumpcap=False, target=None,
                                       trace_log=False, verbose=0)
    cmd.artifacts_dir = None
    cmd.run_meta = B.RunMeta(command="x.Cmd", start_time="2024-01-01T00:00:00", exit_code=0, end_time="", config={"a": 1})
    cmd._lock_file_fd = None
    cmd.db_handler = None
    cmd.log_file_handlers = []
    cmd.power_supply = None

    def fake_run(script, **kw):
        ev.add("hook", kw["env"]["GALLIA_HOOK"], kw["env"].get("GALLIA_EXIT_CODE"), kw["env"].get("GALLIA_META"))
        fails = pre_fails if kw["env"]["GALLIA_HOOK"] == "pre" else post_fails
        if fails:
            raise CalledProcessError(3, script, output="out", stderr="err")
        return types.SimpleNamespace(stdout="out\n", stderr="", returncode=0)

    class NullLogger:
        def __getattr__(self, name):
            return lambda *a, **k: None

    saved = (B.run, B.DBHandler, B.add_zst_log_handler, B.remove_zst_log_handler, B.get_file_log_level, B.logger)
    B.logger = NullLogger()  # arguments of the log calls are still evaluated (base.py is not log-stripped for this property)
    B.run = fake_run
    B.DBHandler = lambda path: StubDB(ev, path)
    B.add_zst_log_handler = lambda **kw: (ev.add("log_add"), "handler")[1]
    B.remove_zst_log_handler = lambda **kw: ev.add("log_remove")
    B.get_file_log_level = lambda cfg: 0
    try:
        try:
            rc = drive(cmd.entry_point())
        except BaseException as e:  # noqa: BLE001
            name = type(e).__name__
            check(False, "entry_point raised " + name + " instead of returning an exit code")
    finally:
        B.run, B.DBHandler, B.add_zst_log_handler, B.remove_zst_log_handler, B.get_file_log_level, B.logger = saved
    # ---- oracle: the documented mapping; an exception in teardown replaces the one of main; setup failing skips main/teardown
    def code(k):
        if k == SYSEXIT_INT:
            return n
        if k in (SYSEXIT_STR, OTHER):
            return exitcodes.SOFTWARE
        if k in (CONNERR, UDSEXC):
            return exitcodes.IOERR if kind == "scanner" else exitcodes.SOFTWARE
        if k == KBDINT:
            return 130
        return 0

    if p_setup != NONE:
        exp = code(p_setup)
    elif p_teardown != NONE:
        exp = code(p_teardown)
    else:
        exp = code(p_main)
    check(rc == exp, lambda: "exit code " + str(rc) + " expected " + str(exp))
    check(cmd.run_meta.exit_code == exp, "run_meta.exit_code differs from the process exit code")
    check(cmd.run_meta.end_time != "", "end time not recorded")
    if artifacts:
        metas = [e for e in ev.log if e[0] == "write" and e[1].endswith("META.json")]
        check(len(metas) == 1, "META.json not written exactly once")
        m = json.loads(metas[0][2])
        check(m["exit_code"] == exp and m["end_time"] != "" and m["config"] == {"a": 1}, "META.json does not carry the exit code / end time / config")
        check(ev.count("log_add") == 1 and ev.count("log_remove") == 1, "log file handler not added / removed exactly once")
    else:
        check(ev.count("log_add") == 0, "log handler without artifacts dir")
    if db:
        check(ev.count("db_connect") == 1 and ev.count("db_insert_run_meta") == 1, "run_meta row not created")
        done_ = [e for e in ev.log if e[0] == "db_complete_run_meta"]
        check(len(done_) == 1 and done_[0][1] == exp, "the database run entry did not get its end time and the same exit code exactly once")
        check(ev.count("db_disconnect") >= 1 and ev.index("db_complete_run_meta") < ev.index("db_disconnect"), "run entry completed after / without closing the database")
    else:
        check(ev.count("db_connect") == 0, "database opened although not configured")
    if lock:
        check(ev.count("lock_acquire") == 1 and ev.count("lock_release") == 1, "lock file not released")
    else:
        check(ev.count("lock_acquire") == 0, "lock without lock file")
    if hooks:
        hk = [e for e in ev.log if e[0] == "hook"]
        check([h[1] for h in hk] == ["pre", "post"], "pre/post hooks not run exactly once each (a failing hook must not alter the run)")
        check(hk[1][2] == str(exp), "post hook does not see the exit code")
        check(hk[1][3] is not None and json.loads(hk[1][3])["exit_code"] == exp, "post hook does not see the final run meta")
        check(ev.index("hook") < ev.index("setup") if ev.index("setup") >= 0 else True, "pre hook after setup")
    else:
        check(ev.count("hook") == 0, "hooks run although disabled")
    # sequencing
    check(ev.count("setup") == 1, "setup not run once")
    if p_setup == NONE:
        check(ev.count("main") == 1 and ev.count("teardown") == 1, "main/teardown not run once after a successful setup")
    else:
        check(ev.count("main") == 0, "main run after a failing setup")
    return done()
