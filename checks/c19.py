"""C19 -- line transports deliver every message intact, in order, one per read."""
import os

INFO = {
    "level": "model_checking",
    "bounds": {
        "quick": "two messages (1 symbolic byte = all 256 values in first / second position, one segment; concrete 0a/100a and a 64-byte message (4095 bytes: thorough) for segmentation) written by the real "
                 "write(), wire stream cut at one symbolic offset, segments delivered at symbolic instants t1 <= t2 (microseconds, 0..3 s), first read with a "
                 "symbolic timeout or none; EOF after a symbolic prefix of one line; server loop with two request lines cut at a symbolic offset; tcp-lines and unix-lines",
        "thorough": "additionally the 4095-byte message and every listed cut position of the long messages",
    },
    "stubs": ["sockets -> asyncio StreamReader/StreamWriter on a fake transport; scripted peer feeds bytes at symbolic instants on the virtual-time loop",
              "logger.* stripped"],
    "outside": ["kernel TCP / unix socket behaviour", "messages with more than 2 symbolic bytes (content enters only through binascii)", "more than two segments (quick)"],
    "assumptions": ["ties between an arrival and a deadline are left unconstrained"],
}

SPLIT = '''
def {name}(m: bytes, cut: int, t1: int, t2: int, to: int, has_to: bool) -> bool:
    """
    pre: len(m) == {n}
    pre: 0 <= cut <= {wl}
    pre: 0 <= t1 <= t2 <= 3000000
    pre: 1 <= to <= 3000000
    post: _
    """
    return split_read({kind!r}, {m1}, {m2}, cut, t1, t2, to, has_to)
'''

EOFT = '''
def {name}(cut: int) -> bool:
    """
    pre: 0 <= cut <= {wl}
    post: _
    """
    return eof_read({kind!r}, {msg}, cut)
'''

SRV = '''
def {name}(m: bytes, cut: int, t1: int, t2: int) -> bool:
    """
    pre: len(m) == 1
    pre: 0 <= cut <= {wl}
    pre: 0 <= t1 <= t2 <= 3000000
    post: _
    """
    return server_loop({m1}, {m2}, cut, t1, t2)
'''


CONTENT = '''
def {name}(m: bytes) -> bool:
    """
    pre: len(m) == {n}
    pre: {lo} <= m[0] <= {hi}
    post: _
    """
    return {fn}({args})
'''

SEG = '''
def {name}(cut: int, t1: int, t2: int, to: int, has_to: bool) -> bool:
    """
    pre: {cutpre}
    pre: 0 <= t1 <= t2 <= 3000000
    pre: 1 <= to <= 3000000
    post: _
    """
    return split_read({kind!r}, {m1}, {m2}, cut, t1, t2, to, has_to)
'''

SRVSEG = '''
def {name}(cut: int, t1: int, t2: int) -> bool:
    """
    pre: 0 <= cut <= {wl}
    pre: 0 <= t1 <= t2 <= 3000000
    post: _
    """
    return server_loop({m1}, {m2}, cut, t1, t2)
'''


def obligations(tier, scratch):
    quick = tier == "quick"
    path = os.path.join(scratch, "gen_c19.py")
    src = ["from checks.c19_lib import split_read, eof_read, server_loop", ""]
    obs = []

    def add(name, code, meta, cap=600):
        src.append(code)
        obs.append({"name": name, "module_path": path, "function": name, "cap": cap, "opaque": False, "twin_cap": 120, "meta": meta})

    nsym = 1  # two symbolic bytes would be 65536 realisations through binascii: not reachable (DESIGN.md 8.2)
    for kind in ("tcp", "unix"):
        # content: every value of a symbolic message, in first and in second position, delivered in one segment
        for pos, args in (("first", f"{kind!r}, m, b'\\x10\\x0a', 0, 1000, 1000, 1, False"), ("second", f"{kind!r}, b'\\x0a', m, 0, 1000, 1000, 1, False")):
            for q in range(4):
                name = f"content_{kind}_{pos}_q{q}"
                add(name, CONTENT.format(name=name, n=nsym, fn="split_read", args=args, lo=64 * q, hi=64 * q + 63),
                    {"transport": kind + "-lines", "symbolic_message_bytes": nsym, "first_byte_range": [64 * q, 64 * q + 63], "position": pos,
                     "segmentation": "one segment"}, cap=900)
        # segmentation and timeouts: concrete messages 0a / 100a, symbolic cut and instants
        name = f"seg_{kind}"
        add(name, SEG.format(name=name, kind=kind, m1="b'\\x0a'", m2="b'\\x10\\x0a'", cutpre="0 <= cut <= 8"),
            {"transport": kind + "-lines", "messages": "0a, 100a", "cut": "symbolic 0..8", "instants": "symbolic", "timeout": "symbolic/none"})
        name = f"eof_{kind}"
        add(name, EOFT.format(name=name, kind=kind, msg="b'\\xaa\\xbb\\xcc'", wl=7),
            {"transport": kind + "-lines", "message": "aabbcc", "eof_after": "symbolic prefix length"})
    for tag, m1, wl, cuts in (("long64", "bytes(range(64))", 129 + 5, (0, 1, 64, 128, 129, 130, 134)),
                              ("long4095", "bytes([i % 251 for i in range(4095)])", 8191 + 5, (1, 4096, 8190, 8191, 8192))):
        if quick and tag == "long4095":
            continue  # ~10 s per path (8 kB through traced hexlify): thorough tier only
        for c in cuts if not quick else cuts[1:4]:
            name = f"seg_tcp_{tag}_cut{c}"
            add(name, SEG.format(name=name, kind="tcp", m1=m1, m2="b'\\x3e\\x00'", cutpre=f"cut == {c}"),
                {"transport": "tcp-lines", "messages": tag, "cut": c, "instants": "symbolic", "timeout": "symbolic/none"})
    for pos, args in (("first", "m, b'\\x22\\xf1\\x90', 0, 1000, 1000"), ("second", "b'\\xff\\x01', m, 0, 1000, 1000")):
        for q in range(4):
            name = f"server_content_{pos}_q{q}"
            add(name, CONTENT.format(name=name, n=nsym, fn="server_loop", args=args, lo=64 * q, hi=64 * q + 63),
                {"server_loop": "TCPUDSServerTransport.handle_client", "symbolic_request_bytes": nsym, "first_byte_range": [64 * q, 64 * q + 63],
                 "position": pos}, cap=900)
    name = "server_seg"
    add(name, SRVSEG.format(name=name, m1="b'\\xff\\x0a'", m2="b'\\x22\\xf1\\x90'", wl=5 + 7),
        {"server_loop": "TCPUDSServerTransport.handle_client", "requests": "ff0a, 22f190", "cut": "symbolic", "instants": "symbolic"})
    with open(path, "w") as f:
        f.write("\n".join(src))
    return obs
