"""C06 -- DoIP demultiplexing under any segmentation and interleaving; routing activation."""
import os

INFO = {
    "level": "model_checking",
    "bounds": {
        "quick": "routing activation: source address 0..0xFFFF, all 256 activation types, all 256 response codes, protocol versions 1..3, response instant symbolic; "
                 "gateway scripts of <= 3 frames over {pos. ack (full / empty / prefix echo), ack with wrong echo / wrong address, neg. ack TargetUnreachable / UnknownTargetAddress, "
                 "diagnostic message, second one, foreign ones (src / dst), alive-check request, unknown payload type}; frame instants symbolic (non-decreasing, 0..3 s), one frame "
                 "cut at a symbolic offset with a symbolic gap (scripts of <= 2 frames), whole stream coalesced and cut at a symbolic offset (5 scripts); client: write then 1-2 reads "
                 "with 1 s timeout; header codec with symbolic bytes",
        "thorough": "scripts of 4 frames, every frame of a script cut in turn",
    },
    "stubs": ["TCP -> StreamReader/StreamWriter on a fake transport (asyncio.open_connection patched), scripted gateway on the virtual-time loop", "DoIPConfig (pydantic) concrete", "logger.* stripped"],
    "outside": ["kernel TCP, TLS, UDP discovery", "frame kinds are concrete per obligation", "more than one cut per script", "URI text -> DoIPConfig (pydantic; C20)"],
    "assumptions": ["ties (frame complete exactly at a deadline) unconstrained"],
}

SCRIPTS = [
    ("ack_data", ["ack", "data"], 1), ("data_ack", ["data", "ack"], 1), ("noecho_data", ["ack_noecho", "data"], 1), ("prefix_data", ["ack_prefix", "data"], 1),
    ("alive_ack_data", ["alive", "ack", "data"], 1), ("ack_alive_data", ["ack", "alive", "data"], 1), ("ack_foreign_data", ["ack", "foreign", "data"], 1),
    ("ack_foreigndst_data", ["ack", "foreign_dst", "data"], 1), ("wrongecho_ack_data", ["ack_wrong_echo", "ack", "data"], 1),
    ("wrongaddr_data", ["ack_wrong_addr", "data"], 1), ("unreachable_data", ["nack_unreachable", "data"], 1), ("nack", ["nack_unknown_target"], 0),
    ("unknown_ack_data", ["unknown", "ack", "data"], 1), ("silence", [], 0), ("ack_data_data2", ["ack", "data", "data2"], 2),
    ("data_ack_data2", ["data", "ack", "data2"], 2), ("alive_only", ["alive"], 0), ("ack_data_alive", ["ack", "data", "alive"], 2),
    ("ack_alive", ["ack", "alive"], 1), ("data_unreachable", ["data", "nack_unreachable"], 1),
]

TPL = '''
def {name}({tparams}off: int, gap: int, ato: int) -> bool:
    """
    pre: {order}
    pre: 0 <= off <= {maxoff}
    pre: 0 <= gap <= 1500000
    pre: {atopre}
    post: _
    """
    return run({script!r}, [{tlist}], {split}, off, gap, ato, 1000000, {reads})
'''


def obligations(tier, scratch):
    from checks import c06_lib

    quick = tier == "quick"
    path = os.path.join(scratch, "gen_c06.py")
    src = ["from checks.c06_lib import run, run_coalesced, codec, activation, activation_uri", ""]
    obs = []
    for tag, script, reads in SCRIPTS:
        n = len(script)
        sym_ato = False
        if n == 0:
            splits = [None]
        elif not quick:
            splits = list(range(n))
        else:
            splits = [None] + ([n - 1] if tag in ("ack_data", "data_ack", "nack", "alive_only") else [])
        for sp in splits:
            ts = [f"t{i}" for i in range(n)]
            order = " <= ".join(["0"] + ts + ["3000000"]) if n else "True"
            maxoff = 0 if sp is None else len(c06_lib.F(script[sp])) - 1
            parts = 1 if sp is None else 4
            for q in range(parts):
                lo = 0 if sp is None else 1 + (maxoff * q) // parts
                hi = 0 if sp is None else (maxoff * (q + 1)) // parts
                name = f"g_{tag}" + ("" if sp is None else f"_cut{sp}_p{q}")
                ato_sym = sym_ato and sp is None
                src.append(TPL.format(name=name, tparams="".join(f"{t}: int, " for t in ts), order=order, maxoff=f"{hi} and {lo} <= off",
                                      atopre="1 <= ato <= 2000" if ato_sym else "ato == 1000", script=script, tlist=", ".join(ts),
                                      split=-1 if sp is None else sp, reads=reads))
                obs.append({"name": name, "module_path": path, "function": name, "cap": 900, "opaque": True, "twin_cap": 120,
                            "meta": {"gateway_script": script, "cut_frame": sp, "cut_offset": [lo, hi], "ack_timeout_ms": "symbolic 1..2000" if ato_sym else "fixed",
                                     "reads": reads}})
    for tag, script, reads in SCRIPTS:
        if len(script) < 2:
            continue
        if quick and tag not in ("ack_data", "data_ack", "alive_ack_data", "data_ack_data2", "ack_foreign_data"):
            continue
        total = sum(len(c06_lib.F(k)) for k in script)
        parts = 4
        for q in range(parts):
            lo = (total + 1) * q // parts
            hi = (total + 1) * (q + 1) // parts - 1
            name = f"c_{tag}_p{q}"
            src.append(f'''
def {name}(t0: int, cut: int, gap: int) -> bool:
    """
    pre: 0 <= t0 <= 1500000
    pre: {lo} <= cut <= {hi}
    pre: 0 <= gap <= 1500000
    post: _
    """
    return run_coalesced({script!r}, t0, cut, gap, 1000, 1000000, {reads})
''')
            obs.append({"name": name, "module_path": path, "function": name, "cap": 900, "opaque": True, "twin_cap": 120,
                        "meta": {"gateway_script": script, "delivery": "one segment, or two segments cut at a symbolic byte offset of the whole stream",
                                 "cut_range": [lo, hi], "reads": reads}})
    src.append('''
def header_codec(b: bytes) -> bool:
    """
    pre: len(b) == 8
    post: _
    """
    return codec(b)
''')
    obs.append({"name": "header_codec", "module_path": path, "function": "header_codec", "cap": 300, "opaque": True,
                "meta": {"functions": "GenericHeader pack+unpack (inverse version rule)", "bytes": "8 symbolic"}})
    for tag, pre in (("types", "ver == 3 and 0 <= atype <= 255 and code == 16"), ("codes", "ver == 3 and atype == 0 and 0 <= code <= 255"),
                     ("versions", "1 <= ver <= 3 and atype == 1 and 15 <= code <= 17")):
        name = f"activation_{tag}"
        src.append(f'''
def {name}(srcaddr: int, atype: int, ver: int, code: int, at: int) -> bool:
    """
    pre: 0 <= srcaddr <= 0xFFFF
    pre: {pre}
    pre: 0 <= at <= 3000000
    post: _
    """
    return activation(srcaddr, atype, ver, code, at)
''')
        obs.append({"name": name, "module_path": path, "function": name, "cap": 900, "opaque": True, "twin_cap": 120,
                    "meta": {"function": "DoIPTransport._connect", "symbolic": "source address, " + tag + ", response instant"}})
    for tag, uri, vals in (("hex", "doip://192.0.2.5:13400?src_addr=0x0e00&target_addr=0x1d&activation_type=0xe1&protocol_version=0x02", (0x0E00, 0x1D, 0xE1, 2)),
                           ("dec", "doip://[2001:db8::5]?src_addr=3584&target_addr=29", (3584, 29, 1, 3)),
                           ("mixed", "doip://gw.example:13401?src_addr=0o7000&target_addr=0b11101&activation_type=0", (0o7000, 0b11101, 0, 3))):
        name = f"connect_uri_{tag}"
        src.append(f'''
def {name}(code: int, at: int) -> bool:
    """
    pre: 0 <= code <= 255
    pre: 0 <= at <= 3000000
    post: _
    """
    return activation_uri({uri!r}, {vals[0]}, {vals[1]}, {vals[2]}, {vals[3]}, code, at)
''')
        obs.append({"name": name, "module_path": path, "function": name, "cap": 600, "opaque": True, "twin_cap": 120,
                    "meta": {"entry": "DoIPTransport.connect(" + uri + ")", "symbolic": "response code (all 256), response instant"}})
    with open(path, "w") as f:
        f.write("\n".join(src))
    return obs
