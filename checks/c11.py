"""C11 -- every exchange recorded once, in order, byte-exact."""
import os

INFO = {
    "level": "model_checking",
    "bounds": {
        "quick": "(i) one ECU._request: outcome of the underlying exchange symbolic over {positive, negative, mismatch, malformed, missing, connection error, cancelled}, implicit logging, "
                 "ANALYZE tag, config present, client state (session, level), target session and 'database raises' symbolic; (ii) real insert_scan_result for every typed response id with "
                 "2-4 symbolic bytes and 12/16-byte replies with symbolic tail, symbolic state; (iii) real writer task + disconnect on the virtual-time loop: 3 producers and the disconnect at symbolic "
                 "instants, symbolic execute latency, one execute failing with OperationalError (index symbolic)",
        "thorough": "(ii) up to 8 symbolic bytes",
    },
    "stubs": ["UDSClient._request -> scripted outcome", "datetime.now -> counter", "db handler of (i) -> recording stub", "(ii): bytes_repr_ -> wrapper carrying the bytes, json.dumps -> structural stub "
              "(serialisability is decided by types); (iii): aiosqlite connection -> stub with symbolic latency and failure", "virtual-time loop", "logger.* stripped"],
    "outside": ["sqlite itself, schema constraints, WAL, aiosqlite's thread", "hexlify / json text rendering (C functions)", "histories longer than one exchange (rows are independent)"],
    "assumptions": [],
}


def obligations(tier, scratch):
    from gallia.services.uds.core import service as S

    quick = tier == "quick"
    path = os.path.join(scratch, "gen_c11.py")
    src = ["from checks.c11_lib import ecu_request, row_for, writer", ""]
    obs = []

    def add(name, code, meta, cap=900):
        src.append(code)
        obs.append({"name": name, "module_path": path, "function": name, "cap": cap, "opaque": True, "twin_cap": 120, "meta": meta})

    for kind in range(7):
        name = f"ecu_request_k{kind}"
        add(name, f'''
def {name}(implicit: bool, analyze: bool, has_cfg: bool, session: int, level: int, new_session: int, db_fails: bool) -> bool:
    """
    pre: 1 <= session <= 0x7E and 0 <= level <= 0x41 and 1 <= new_session <= 0x7E
    post: _
    """
    return ecu_request({kind}, implicit, analyze, has_cfg, session, level, new_session, db_fails)
''', {"function": "ECU._request", "outcome": ["positive", "negative", "mismatch", "malformed", "missing", "connection error", "cancelled"][kind],
      "symbolic": "implicit logging, ANALYZE tag, config present, state, target session, database failure"})
    typed = sorted({int(s) + 0x40 for s, svc in S.UDSService._SERVICES.items() if s is not None} | {0x7F})
    reqs = {0x50: "10 01", 0x51: "11 01", 0x67: "27 01", 0x68: "28 00 01", 0x7E: "3e 00", 0xC5: "85 01", 0x62: "22 f1 90", 0x63: "23 11 00 01",
            0x6C: "2c 03", 0x6E: "2e f1 90 00", 0x7D: "3d 11 00 01 00", 0x54: "14 ff ff ff", 0x59: "19 02 ff", 0x6F: "2f f1 90 00", 0x71: "31 01 f1 90",
            0x74: "34 00 11 00 01", 0x75: "35 00 11 00 01", 0x76: "36 01", 0x77: "37", 0x7F: "22 f1 90"}
    for first in typed:
        rq = "bytes.fromhex(%r)" % reqs.get(first, "3e 00")
        lens = (2, 3, 4) if quick else (2, 3, 4, 5, 6, 8)
        variants = [(n, "") for n in lens]
        if first == 0x59:
            variants = [(n, f"\n    pre: tail[0] == {sf}") for n in (4, 7) + (() if quick else (8, 11)) for sf in (0x02, 0x06, 0x01)]
        for n, extra in variants:
            name = f"row_{first:02x}_n{n}" + (f"_sf{extra.strip()[-1]}" if extra else "")
            add(name, f'''
def {name}(tail: bytes, session: int, level: int) -> bool:
    """
    pre: len(tail) == {n - 1}{extra}
    pre: 1 <= session <= 0x7E and 0 <= level <= 0x41
    post: _
    """
    return row_for({rq}, bytes([{first}]) + tail, session, level)
''', {"function": "DBHandler.insert_scan_result", "response_first_byte": hex(first), "length": n, "symbolic": "reply bytes, state"})
    for first, n, fixed in ((0x62, 12, "f1 90"), (0x62, 16, "f1 90"), (0x67, 14, "01"), (0x71, 13, "01 f1 90")):
        name = f"row_long_{first:02x}_n{n}"
        k = len(bytes.fromhex(fixed))
        add(name, f'''
def {name}(tail: bytes, session: int) -> bool:
    """
    pre: len(tail) == {n - 1 - k}
    pre: 1 <= session <= 0x7E
    post: _
    """
    return row_for({"bytes.fromhex(%r)" % reqs[first]}, bytes([{first}]) + bytes.fromhex({fixed!r}) + tail, session, 0)
''', {"function": "DBHandler.insert_scan_result", "response_first_byte": hex(first), "length": n, "symbolic": "reply tail"})
    for tag, pre in (("nofail", "fail == -1 and lat == 1000" + (" and t3 == 0" if quick else "")), ("nofail_lat", "fail == -1 and t3 == 0 and t2 == 0"), ("fail0", "fail == 0 and lat == 1000 and t3 == 0"), ("fail1", "fail == 1 and lat == 1000 and t3 == 0"),
                     ("fail2", "fail == 2 and lat == 1000 and t3 == 0")):
        name = f"writer_{tag}"
        add(name, f'''
def {name}(t1: int, t2: int, t3: int, tdisc: int, fail: int, lat: int) -> bool:
    """
    pre: 0 <= t1 <= 2000000 and 0 <= t2 <= 2000000 and 0 <= t3 <= 2000000
    pre: 0 <= tdisc <= 2000000
    pre: {pre}
    pre: 0 <= lat <= 500000
    post: _
    """
    return writer(t1, t2, t3, tdisc, fail, lat)
''', {"function": "DBHandler._executor_func + disconnect", "symbolic": "producer instants, disconnect instant, failing execute index, execute latency"}, cap=1500)
    with open(path, "w") as f:
        f.write("\n".join(src))
    return obs
