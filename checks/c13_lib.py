"""Harness body for C13: one step of the virtual ECU from an arbitrary valid state against the ISO default response rules."""
from checks.vecu_lib import MODEL_SF_SERVICES, NDRNG, Draws, Patched, PoolExhausted, Vacuous, check, done, handle, make_server, two_session_model
from gallia.services.uds.core import service as S
from spec import iso_server_rules as R


TRACE = []


def step(sid, tail, off, cur, level, here, there, ha, ho, sfa, sfo, t12, t22, ints, bools):
    draws = Draws(ints, bools)
    req = bytes([sid]) + tail
    NDRNG.small_bytes = sid == 0x19
    try:
        model = two_session_model(sid, cur, here, there, ha, ho, sfa, sfo, t12, t22)
        lvl = level
        srv = make_server(model, off, draws, session=cur, level=lvl)
        sw = R.Sw(off)
        exp = R.expected(model, cur, req, sw)
        with Patched(draws):
            try:
                reply = handle(srv, req)  # any exception here is a violation ("disabling a behaviour only removes that rule")
            except (Vacuous, PoolExhausted):
                raise
            except Exception as e:  # noqa: BLE001
                name = type(e).__name__
                check(False, "virtual ECU raised " + name)
    except Vacuous:
        return True
    kind, val = exp
    del TRACE[:]
    TRACE.extend([kind, None if reply is None else len(reply), draws.i, draws.b])
    # what the ECU did, including a suppressed positive reply, is visible through the state rule below
    parsed = S.UDSRequest.parse_dynamic(req)
    is_sf_req = isinstance(parsed, S.SubFunctionRequest)
    if kind == "nrc":
        check(reply is not None, "negative response suppressed (expected NRC " + hex(val) + ")")
        check(reply == bytes([0x7F, sid, val]), lambda: "expected 7f " + hex(sid) + " " + hex(val) + ", got " + reply.hex())
    elif kind == "positive":
        if R.suppressed(req, is_sf_req, sw):
            check(reply is None, "positive reply not suppressed although the suppress bit is set")
        else:
            check(reply == val, lambda: "expected " + val.hex() + ", got " + ("silence" if reply is None else reply.hex()))
    elif kind == "handler":
        if reply is not None:
            check(reply[0] == sid + 0x40 or (reply[0] == 0x7F and len(reply) == 3 and reply[1] == sid),
                  lambda: "reply of another service: " + reply.hex())
            if reply[0] != 0x7F:
                check(not R.suppressed(req, is_sf_req, sw), "positive reply not suppressed although the suppress bit is set")
    # state: changes exactly on the positive replies ISO defines (also when the reply itself is suppressed)
    if reply is not None:
        positive = reply[0] != 0x7F
        es, el = R.state_after(cur, lvl, req, positive, reply[0])
        check(srv.state.session == es and srv.state.security_access_level == el,
              lambda: "state after the reply is (" + str(srv.state.session) + ", " + str(srv.state.security_access_level) + ") expected ("
              + str(es) + ", " + str(el) + ")")
    elif kind == "nrc":
        pass
    elif kind == "positive":
        es, el = R.state_after(cur, lvl, req, True, val[0])
        check(srv.state.session == es and srv.state.security_access_level == el, "suppressed positive reply did not change the state as ISO defines")
    return done()


def seed_key(right_key, key_tail, pre_request, spr, ints, bools):
    """seed/key sequencing (ISO 14229-1 SecurityAccess): sendKey is answered positively iff it carries the key belonging to the
    seed handed out by the immediately preceding requestSeed; only that positive reply sets the security level; a sendKey
    without a pending seed gets requestSequenceError, a wrong key invalidKey."""
    from gallia.services.uds.core.constants import UDSIsoServices

    draws = Draws(ints, bools)
    NDRNG.small_bytes = False
    try:
        model = two_session_model(0x27, 1, True, True, True, True, 1, 1, True, True)
        srv = make_server(model, (), draws, session=1, level=None)
        with Patched(draws):
            seed = b""
            if pre_request:
                r = handle(srv, bytes([0x27, 0x01]))
                check(r is not None and r[0] == 0x67 and r[1] == 0x01, "requestSeed of a supported level not answered positively")
                seed = r[2:]
                check(srv.state.security_access_level is None, "requestSeed changed the security level")
            key = seed if right_key else seed + key_tail
            reply = handle(srv, bytes([0x27, 0x02 + (0x80 if spr else 0)]) + key)
    except Vacuous:
        return True
    if len(key) == 0:
        return done()  # an empty key is not a well-formed sendKey request (format rule)
    if not pre_request:
        check(reply == bytes([0x7F, 0x27, 0x24]), "sendKey without a pending seed must be answered with requestSequenceError")
        check(srv.state.security_access_level is None, "security level changed without a positive reply")
    elif right_key:
        check(reply == (None if spr else bytes([0x67, 0x02])), "the right key was not accepted (or the suppress bit not honoured)")
        check(srv.state.security_access_level == 1, "positive sendKey reply did not set the security level")
    else:
        check(reply == bytes([0x7F, 0x27, 0x35]), "a wrong key must be answered with invalidKey")
        check(srv.state.security_access_level is None, "security level changed on a negative reply")
    return done()
