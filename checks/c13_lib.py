"""Harness body for C13: one step of the virtual ECU from an arbitrary valid state against the ISO default response rules."""
from checks.vecu_lib import MODEL_SF_SERVICES, NDRNG, Draws, Patched, PoolExhausted, Vacuous, check, done, handle, make_server, two_session_model
from gallia.services.uds.core import service as S
from spec import iso_server_rules as R


TRACE = []


def step(sid, tail, off, cur, level, here, there, ha, ho, sfa, sfo, t12, t22, ints, bools):
    draws = Draws(ints, bools)
    req = bytes([sid]) + tail
    NDRNG.small_bytes = sid == 0x19
    try:
        model = two_session_model(sid, cur, here, there, ha, ho, sfa, sfo, t12, t22)
        lvl = level
        srv = make_server(model, off, draws, session=cur, level=lvl)
        sw = R.Sw(off)
        exp = R.expected(model, cur, req, sw)
        with Patched(draws):
            try:
                reply = handle(srv, req)  # any exception here is a violation ("disabling a behaviour only removes that rule")
            except (Vacuous, PoolExhausted):
                raise
            except Exception as e:  # noqa: BLE001
                name = type(e).__name__
                check(False, "virtual ECU raised " + name)
    except Vacuous:
        return True
    kind, val = exp
    del TRACE[:]
    TRACE.extend([kind, None if reply is None else len(reply), draws.i, draws.b])
    # what the ECU did, including a suppressed positive reply, is visible through the state rule below
    parsed = S.UDSRequest.parse_dynamic(req)
    is_sf_req = isinstance(parsed, S.SubFunctionRequest)
    if kind == "nrc":
        check(reply is not None, "negative response suppressed (expected NRC " + hex(val) + ")")
        check(reply == bytes([0x7F, sid, val]), lambda: "expected 7f " + hex(sid) + " " + hex(val) + ", got " + reply.hex())
    elif kind == "positive":
        if R.suppressed(req, is_sf_req, sw):
            check(reply is None, "positive reply not suppressed although the suppress bit is set")
        else:
            check(reply == val, lambda: "expected " + val.hex() + ", got " + ("silence" if reply is None else reply.hex()))
    elif kind == "handler":
        if reply is not None:
            check(reply[0] == sid + 0x40 or (reply[0] == 0x7F and len(reply) == 3 and reply[1] == sid),
                  lambda: "reply of another service: " + reply.hex())
            if reply[0] != 0x7F:
                check(not R.suppressed(req, is_sf_req, sw), "positive reply not suppressed although the suppress bit is set")
    # state: changes exactly on the positive replies ISO defines (also when the reply itself is suppressed)
    if reply is not None:
        positive = reply[0] != 0x7F
        es, el = R.state_after(cur, lvl, req, positive, reply[0])
        check(srv.state.session == es and srv.state.security_access_level == el,
              lambda: "state after the reply is (" + str(srv.state.session) + ", " + str(srv.state.security_access_level) + ") expected ("
              + str(es) + ", " + str(el) + ")")
    elif kind == "nrc":
        pass
    elif kind == "positive":
        es, el = R.state_after(cur, lvl, req, True, val[0])
        check(srv.state.session == es and srv.state.security_access_level == el, "suppressed positive reply did not change the state as ISO defines")
    return done()
