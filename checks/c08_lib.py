"""Harness for C08: the peer closes, resets or goes silent at any point of an exchange (four transports on fake streams,
virtual-time loop); reconnect through the UDS client for tcp-lines."""
import asyncio
import binascii

from checks import c06_lib as D6
from checks import c07_lib as H7
from engine.hlib import check, done, reraise
from engine.vloop import Peer, VLoop, VTime, make_streams
from gallia.services.uds.core import service as S
from gallia.services.uds.core.client import UDSClient
from gallia.services.uds.core.exception import MissingResponse, UDSException
from gallia.transports import TargetURI
from gallia.transports.doip import DoIPConnection, DoIPTransport
from gallia.transports.hsfz import HSFZConnection, HSFZTransport
from gallia.transports.tcp import TCPLinesTransport
from gallia.transports.unix import UnixLinesTransport

REPLY = bytes([0x62, 0xF1, 0x90, 0xAA])
REQ = bytes([0x22, 0xF1, 0x90])
EOF_, RESET, SILENCE = "eof", "reset", "silence"


def setup(kind, loop):
    """-> (transport, peer, fake transport, peer stream for one exchange, ack time in us)"""
    reader, writer, tr, proto = make_streams(loop)
    peer = Peer(loop, reader, proto)
    if kind == "tcp":
        t = TCPLinesTransport(TargetURI("tcp-lines://127.0.0.1:20162"), reader, writer)
        stream, ack_us = binascii.hexlify(REPLY) + b"\n", 0
    elif kind == "unix":
        t = UnixLinesTransport(TargetURI("unix-lines:///tmp/x.sock"), reader, writer)
        stream, ack_us = binascii.hexlify(REPLY) + b"\n", 0
    elif kind == "doip":
        conn = DoIPConnection(reader, writer, D6.SRC, D6.DST, D6.VER)
        t = DoIPTransport(D6.URI, 13400, D6.CFG, conn)
        stream, ack_us = D6.F("ack") + D6.F("data"), 2_000_000
    else:
        conn = HSFZConnection(reader, writer, H7.SRC, H7.DST, VTime(1_000_000))
        t = HSFZTransport(H7.URI, 6801, H7.CFG, conn)
        # the HSFZ harness request is 6 bytes; use its own request/ack pair
        stream, ack_us = H7.F("ack") + H7.F("data"), 1_000_000
    return t, peer, tr, stream, ack_us


def request_of(kind):
    return H7.REQ if kind == "hsfz" else REQ


def reply_of(kind):
    return H7.F("data")[8:] if kind == "hsfz" else (D6.F("data")[D6.PAYLOAD_OFF:] if kind == "doip" else REPLY)


def exchange(kind, cut, t1, t2, how, timeout_us, has_timeout):
    """One exchange write -> (ack) -> read.  The peer delivers the first `cut` bytes of its stream at t1 and then closes
    (EOF), resets or stays silent at t2 >= t1."""
    loop = VLoop()
    box = {}

    async def main():
        t, peer, tr, stream, ack_us = setup(kind, loop)
        box.update(t=t, tr=tr, stream=stream, ack_us=ack_us)
        if not (0 <= cut <= len(stream)):
            return ("vacuous", None, 0)
        peer.feed_at(VTime(t1), stream[:cut])
        if how == EOF_:
            peer.eof_at(VTime(t2))
        elif how == RESET:
            peer.reset_at(VTime(t2))
        to = VTime(timeout_us) if has_timeout else None
        try:
            await t.write(request_of(kind), timeout=to)
            d = await t.read(timeout=to)
            out = ("data", d, loop.now.us)
        except TimeoutError:
            out = ("timeout", None, loop.now.us)
        except (ConnectionError, OSError):
            out = ("connerr", None, loop.now.us)
        except Exception as e:  # noqa: BLE001
            out = ("other:" + type(e).__name__, None, loop.now.us)
        # closing twice / after loss is harmless
        await t.close()
        await t.close()
        return out

    task = loop.run(main(), max_steps=60000)
    if not task.done():
        stream, ack_us = box["stream"], box["ack_us"]
        ack_len = len(stream) - len(_data_frame(kind)) if kind in ("doip", "hsfz") else 0
        # silence without any caller timeout legitimately waits for ever once the request was acknowledged
        legit = how == SILENCE and not has_timeout and cut >= ack_len and (kind in ("tcp", "unix") or t1 < ack_us)
        check(legit, "operation blocks forever after the peer went away")
        return done()
    reraise(task)
    kind_, val, when = task.result()
    if kind_ == "vacuous":
        return True
    stream, ack_us = box["stream"], box["ack_us"]
    full = cut == len(stream)
    if kind_ == "data":
        if val != b"":
            check(val == reply_of(kind), "fabricated data: the operation returned bytes that are not a complete frame the peer sent")
            check(full or (kind in ("tcp", "unix") and cut == len(stream) - 1 and how == EOF_), "a reply was returned although the peer never sent it completely")
    else:
        check(not kind_.startswith("other:"), "connection loss surfaced as " + kind_)
    in_time = (not has_timeout or t1 < timeout_us) and (ack_us == 0 or t1 < ack_us)
    if full and in_time:
        check(kind_ == "data" and val == reply_of(kind), "complete reply delivered in time was not returned")
    # bounded time: no later than the caller's timeout plus the protocol's acknowledgement time
    if has_timeout:
        check(when <= 2 * timeout_us + ack_us, "operation ended after caller timeout + acknowledgement time")
    elif how != SILENCE and not full:
        check(when <= t2 + ack_us + 1 or kind_ == "data", "operation outlived the connection loss by more than the acknowledgement time")
    return done()


def _data_frame(kind):
    return D6.F("data") if kind == "doip" else H7.F("data")


def client_recovers(cut, t1, t2, how, restart_us):
    """tcp-lines + UDSClient(max_retry=1): the connection is cut during the first exchange; the peer accepts connections again
    from `restart_us` on and then answers correctly."""
    loop = VLoop()
    box = {"conns": 0, "attempts": []}
    saved = asyncio.open_connection

    async def fake_open(host, port, **kw):
        box["attempts"].append(loop.now.us)
        if loop.now.us < restart_us:
            raise ConnectionRefusedError("peer not accepting")
        box["conns"] += 1
        reader, writer, tr, proto = make_streams(loop)
        peer = Peer(loop, reader, proto)
        tr.on_write = lambda data: peer.feed_at(loop.now + VTime(1000), binascii.hexlify(REPLY) + b"\n")
        return reader, writer

    async def main():
        asyncio.open_connection = fake_open
        try:
            t, peer, tr, stream, _ = setup("tcp", loop)
            box["conns"] += 1
            if not (0 <= cut <= len(stream)):
                return ("vacuous", None)
            peer.feed_at(VTime(t1), stream[:cut])
            if how == EOF_:
                peer.eof_at(VTime(t2))
            else:
                peer.reset_at(VTime(t2))
            client = UDSClient(t, timeout=1.0, max_retry=1)
            try:
                r = await client.request(S.ReadDataByIdentifierRequest(0xF190))
                return ("reply", r.pdu)
            except MissingResponse:
                return ("missing", None)
            except UDSException as e:
                return ("uds:" + type(e).__name__, None)
            except ConnectionError:
                return ("raw-connection-error", None)
            except Exception as e:  # noqa: BLE001
                return ("other:" + type(e).__name__, None)
        finally:
            asyncio.open_connection = saved

    task = loop.run(main(), max_steps=80000)
    asyncio.open_connection = saved
    check(task.done(), "request blocks forever")
    reraise(task)
    kind_, val = task.result()
    if kind_ == "vacuous":
        return True
    stream = binascii.hexlify(REPLY) + b"\n"
    if kind_ == "reply":
        check(val == REPLY, "client returned fabricated reply bytes")
    if cut == len(stream) and t1 < 1_000_000:
        check(kind_ == "reply" and box["conns"] == 1, "reply delivered before the cut was not returned over the first connection")
    elif cut < len(stream) - 1 and t2 < 1_000_000:
        # loss detected during the first attempt; the reconnect happens after the back-off (0.2 s)
        if restart_us <= t2:
            check(kind_ == "reply", "peer accepts connections again but the client with one retry did not obtain the reply: " + kind_)
            check(box["conns"] == 2, "expected exactly one automatic reconnect")
    check(kind_ in ("reply", "missing", "raw-connection-error"), "unexpected outcome " + kind_)
    return done()
