"""Harness for C05: several tasks use one UDSClient / ECU concurrently on the virtual-time loop; the transport is a
timing-aware simulation (a reply is delivered `delay` after its request was written, whoever is reading then)."""
import asyncio

from engine.hlib import check, done
from engine.vloop import VLoop, VTime
from gallia.services.uds.core import service as S
from gallia.services.uds.core.client import UDSClient, UDSRequestConfig
from gallia.services.uds.core.exception import MissingResponse, RequestResponseMismatch, UDSException
from gallia.services.uds.ecu import ECU

OK, PENDING, SILENT, CONNERR = "ok", "pending", "silent", "connerr"


class Monitor:
    def __init__(self):
        self.active = None  # task whose exchange is in flight
        self.violations = []
        self.writes = []

    def on_write(self, loop, data):
        task = asyncio.current_task(loop)
        self.writes.append((loop.now.us, task.get_name(), bytes(data)))
        if self.active is not None and self.active is not task:
            self.violations.append("request of " + task.get_name() + " transmitted while the exchange of " + self.active.get_name() + " is in flight")
        self.active = task

    def end(self, task):
        if self.active is task:
            self.active = None


class SimTransport:
    """plan: request key (bytes 0..2 of the PDU) -> list of (kind, delay_us[, delay2_us]) consumed one per transmission"""

    def __init__(self, loop, monitor, plan, reconnect_us=0):
        self.loop, self.monitor, self.plan = loop, monitor, plan
        self.inbox = asyncio.Queue()
        self.reconnect_us = reconnect_us
        self.reconnects = 0
        self.is_closed = False

    async def write(self, data, timeout=None, tags=None):
        self.monitor.on_write(self.loop, data)
        key = bytes(data[:3])
        steps = self.plan.get(key)
        kind, d1, d2 = steps.pop(0) if steps else (SILENT, 0, 0)
        now = self.loop.now
        if kind == OK:
            self.loop.call_at(now + VTime(d1), self.inbox.put_nowait, self.reply(data))
        elif kind == PENDING:
            self.loop.call_at(now + VTime(d1), self.inbox.put_nowait, bytes([0x7F, data[0], 0x78]))
            self.loop.call_at(now + VTime(d1) + VTime(d2), self.inbox.put_nowait, self.reply(data))
        elif kind == CONNERR:
            self.loop.call_at(now + VTime(d1), self.inbox.put_nowait, ConnectionResetError("scripted"))
        return len(data)

    @staticmethod
    def reply(data):
        if data[0] == 0x3E:
            return bytes([0x7E, 0x00])
        return bytes([data[0] + 0x40]) + bytes(data[1:3]) + b"\xAA"

    async def read(self, timeout=None, tags=None):
        to = VTime(int(round(timeout * 1_000_000))) if isinstance(timeout, (int, float)) else timeout
        item = await asyncio.wait_for(self.inbox.get(), to)
        if isinstance(item, Exception):
            raise item
        return item

    async def request_unsafe(self, data, timeout=None, tags=None):
        await self.write(data, timeout, tags)
        return await self.read(timeout, tags)

    async def reconnect(self, timeout=None):
        self.reconnects += 1
        await asyncio.sleep(VTime(self.reconnect_us))
        return self

    async def close(self):
        self.is_closed = True


def rdbi(did):
    return S.ReadDataByIdentifierRequest(did)


async def caller(client, monitor, start_us, did, out, name):
    task = asyncio.current_task()
    try:
        await asyncio.sleep(VTime(start_us))
        r = await client.request(rdbi(did))
        out[name] = ("reply", r.pdu)
    except asyncio.CancelledError:
        out[name] = ("cancelled", None)
        raise
    except UDSException as e:
        out[name] = ("error", type(e).__name__)
    except ConnectionError as e:
        out[name] = ("error", type(e).__name__)
    finally:
        monitor.end(task)


def judge(monitor, out, tasks, dids, allow_cancel=()):
    check(not monitor.violations, lambda: monitor.violations[0])
    for name, t in tasks.items():
        check(t.done(), "caller " + name + " never completes (client not released?)")
    for name, did in dids.items():
        kind, val = out.get(name, ("missing", None))
        if kind == "reply":
            check(val[0] == 0x62 and val[1] == did >> 8 and val[2] == did & 0xFF, "caller " + name + " received a reply that belongs to another request")
        elif kind == "cancelled":
            check(name in allow_cancel, "caller " + name + " was cancelled unexpectedly")
        else:
            check(kind == "error", "caller " + name + " has no outcome")
    return done()


def two_callers(kind1, s1, d1, d1b, s2, d2, retry, reconnect_us):
    """two callers with distinct identifiers; caller a's reply script is `kind1`, caller b is answered after d2"""
    loop = VLoop()
    mon = Monitor()
    out = {}
    plan = {bytes([0x22, 0x11, 0x11]): [(kind1, d1, d1b), (OK, 1000, 0), (OK, 1000, 0)],
            bytes([0x22, 0x22, 0x22]): [(OK, d2, 0), (OK, 1000, 0)]}
    tr = SimTransport(loop, mon, plan, reconnect_us)
    client = UDSClient(tr, timeout=1.0, max_retry=retry)
    tasks = {}

    async def main():
        tasks["a"] = loop.create_task(caller(client, mon, s1, 0x1111, out, "a"), name="a")
        tasks["b"] = loop.create_task(caller(client, mon, s2, 0x2222, out, "b"), name="b")

    loop.run(main(), max_steps=50000)
    return judge(mon, out, tasks, {"a": 0x1111, "b": 0x2222})


def cancel_one(s1, d1, s2, d2, c):
    """caller a is cancelled at instant c (before, during or after its exchange); caller b must still complete"""
    loop = VLoop()
    mon = Monitor()
    out = {}
    plan = {bytes([0x22, 0x11, 0x11]): [(OK, d1, 0)], bytes([0x22, 0x22, 0x22]): [(OK, d2, 0), (OK, 1000, 0)]}
    tr = SimTransport(loop, mon, plan)
    client = UDSClient(tr, timeout=1.0, max_retry=0)
    tasks = {}

    async def main():
        tasks["a"] = loop.create_task(caller(client, mon, s1, 0x1111, out, "a"), name="a")
        tasks["b"] = loop.create_task(caller(client, mon, s2, 0x2222, out, "b"), name="b")
        loop.call_at(VTime(c), tasks["a"].cancel)

    loop.run(main(), max_steps=50000)
    check(tasks["b"].done(), "caller b never completes after caller a was cancelled (client not released)")
    return judge(mon, out, tasks, {"a": 0x1111, "b": 0x2222}, allow_cancel=("a",))


def three_callers(s1, d1, s2, d2, s3, d3):
    loop = VLoop()
    mon = Monitor()
    out = {}
    plan = {bytes([0x22, 0x11, 0x11]): [(OK, d1, 0)], bytes([0x22, 0x22, 0x22]): [(OK, d2, 0)], bytes([0x22, 0x33, 0x33]): [(OK, d3, 0)]}
    tr = SimTransport(loop, mon, plan)
    client = UDSClient(tr, timeout=1.0, max_retry=0)
    tasks = {}

    async def main():
        for name, s, did in (("a", s1, 0x1111), ("b", s2, 0x2222), ("c", s3, 0x3333)):
            tasks[name] = loop.create_task(caller(client, mon, s, did, out, name), name=name)

    loop.run(main(), max_steps=80000)
    return judge(mon, out, tasks, {"a": 0x1111, "b": 0x2222, "c": 0x3333})


def with_tester_present(kind1, s1, d1, d1b, interval_us, dtp):
    """the real ECU._tester_present_worker runs beside a caller whose exchange is slow / pending"""
    loop = VLoop()
    mon = Monitor()
    out = {}
    plan = {bytes([0x22, 0x11, 0x11]): [(kind1, d1, d1b)], bytes([0x3E, 0x00]): [(OK, dtp, 0)] * 6}
    tr = SimTransport(loop, mon, plan)
    ecu = ECU(tr, timeout=1.0, max_retry=0)
    ecu.implicit_logging = False
    tasks = {}

    async def tp():
        task = asyncio.current_task()
        # the worker's own exchanges end when ping() returns: wrap ping to tell the monitor
        orig = ecu.ping

        async def ping(cfg=None):
            try:
                return await orig(cfg)
            finally:
                mon.end(task)

        ecu.ping = ping
        await ecu._tester_present_worker(VTime(interval_us))

    async def main():
        tasks["a"] = loop.create_task(caller(ecu, mon, s1, 0x1111, out, "a"), name="a")
        w = loop.create_task(tp(), name="tester-present")
        loop.call_at(VTime(2_500_000), w.cancel)
        tasks["w"] = w

    loop.run(main(), max_steps=80000)
    check(not mon.violations, lambda: mon.violations[0])
    check(tasks["a"].done(), "caller never completes")
    kind, val = out.get("a", ("missing", None))
    if kind == "reply":
        check(val[0] == 0x62 and val[1] == 0x11 and val[2] == 0x11, "caller received a reply that belongs to another request")
    return done()
