"""C14 -- the virtual ECU survives any request and its answers are accepted by the client."""
import os

INFO = {
    "level": "model_checking",
    "bounds": {
        "quick": "one step from a valid state of the symbolic two-session model: every id of UDSIsoServices + 2 unknown ids x request length 1..4 "
                 "(0x22: ..5) with all other bytes symbolic; histories: {session change, seed request, seed+key (right/wrong), reset} then a symbolic request "
                 "of 2..3 bytes for 8 services; real randomize() model of seed 3: every service id it offers x lengths 2..3; every RNG draw symbolic",
        "thorough": "lengths up to 6; histories for all services; real models for seeds 0..7",
    },
    "stubs": ["logger.* stripped", "time() = counter", "RNG / stateful_rng = nondeterministic stub drawing from explicit symbolic harness arguments (payloads <= 2 bytes)",
              "pydantic objects concrete", "opaque int formatting"],
    "outside": ["TCP server loop (framing in C19)", "ISO-TP sockets", "longer requests/histories", "payloads longer than 2 bytes from the RNG stub"],
    "assumptions": ["model invariants guaranteed by randomize() (discharged in C16)"],
}

STEP = '''
def {name}(tail: bytes, here: bool, there: bool, ha: bool, ho: bool, sfa: int, sfo: int, t12: bool, t22: bool,
           i0: int, i1: int, i2: int, i3: int, i4: int, i5: int, b0: bool, b1: bool, b2: bool) -> bool:
    """
    pre: len(tail) == {n}
    pre: 0 <= sfa <= 0x7E
    pre: 0 <= sfo <= 0x7E{extra}
    post: _
    """
    return step({sid}, tail, (), {cur}, here, there, ha, ho, sfa, sfo, t12, t22, [i0, i1, i2, i3, i4, i5], [b0, b1, b2])
'''

HIST = '''
def {name}(p1: int, key: bool, tail: bytes, here: bool, ha: bool, sfa: int,
           i0: int, i1: int, i2: int, i3: int, i4: int, i5: int, i6: int, i7: int, b0: bool, b1: bool, b2: bool) -> bool:
    """
    pre: len(tail) == {n}
    pre: 1 <= p1 <= 4
    pre: 0 <= sfa <= 0x7E{extra}
    post: _
    """
    return history({first}, p1, key, {sid}, tail, {cur}, here, ha, sfa, [i0, i1, i2, i3, i4, i5, i6, i7], [b0, b1, b2])
'''

REAL = '''
def {name}(tail: bytes, i0: int, i1: int, i2: int, i3: int, i4: int, i5: int, b0: bool, b1: bool, b2: bool) -> bool:
    """
    pre: len(tail) == {n}{extra}
    post: _
    """
    return real_step({seed}, {session}, {sid}, tail, [i0, i1, i2, i3, i4, i5], [b0, b1, b2])
'''


def obligations(tier, scratch):
    from checks import c14_lib
    from gallia.services.uds.core.constants import UDSIsoServices

    quick = tier == "quick"
    path = os.path.join(scratch, "gen_c14.py")
    src = ["from checks.c14_lib import step, history, real_step", ""]
    obs = []
    ids = sorted(int(s) for s in UDSIsoServices if int(s) != 0x7F) + [0xBA, 0x00]
    SF_SPLIT = {0x19: (0x01, 0x02, 0x06, 0x0A, 0x03) if quick else (0x01, 0x02, 0x06, 0x0A, 0x0B, 0x0F, 0x13, 0x15, 0x03, 0x7F),
                0x2C: (0x01, 0x02, 0x03, 0x04), 0x31: (0x01, 0x02, 0x03, 0x00)}

    def variants(sid, n):
        if sid in SF_SPLIT and n >= 2:
            return [(f"_sf{k:02x}", f"\n    pre: tail[0] % 128 == {k}") for k in SF_SPLIT[sid]]
        return [("", "")]

    for sid in ids:
        lens = [1, 2, 3, 4] if quick else [1, 2, 3, 4, 5, 6]
        if sid == 0x22 and quick:
            lens.append(5)
        for n in lens:
            for vt, extra in variants(sid, n):
                for cur in (2,) if quick else (1, 2):
                    name = f"step_{sid:02x}_n{n}{vt}_c{cur}"
                    src.append(STEP.format(name=name, n=n - 1, sid=sid, cur=cur, extra=extra))
                    obs.append({"name": name, "module_path": path, "function": name, "cap": 400, "opaque": True, "twin_cap": 60,
                                "meta": {"service_id": hex(sid), "request_len": n, "active_session": cur}})
    hist_ids = [0x10, 0x11, 0x27, 0x22, 0x2E, 0x31, 0x3E, 0x85] if quick else [i for i in ids if i not in (0xBA, 0x00)]
    for sid in hist_ids:
        for first in (1, 2, 3, 4):
            for n in (2, 3):
                for vt, extra in variants(sid, n)[:2]:
                    name = f"hist{first}_{sid:02x}_n{n}{vt}"
                    src.append(HIST.format(name=name, n=n - 1, sid=sid, cur=1, first=first, extra=extra))
                    obs.append({"name": name, "module_path": path, "function": name, "cap": 500, "opaque": True, "twin_cap": 60,
                                "meta": {"history": {1: "10 <p1>", 2: "27 01", 3: "27 01; 27 02 <seed|wrong>", 4: "11 <p1>"}[first],
                                         "then": hex(sid), "request_len": n}})
    for seed in (3,) if quick else range(8):
        src.insert(1, f"from checks.c14_lib import real_model; real_model({seed})  # built at import, outside tracing")
        model = c14_lib.real_model(seed)
        sessions = sorted(model)
        offered = sorted({int(k) for m in model.values() for k in m})
        for session in (sessions[:1] + sessions[-1:]) if quick else sessions:
            for sid in offered:
                for n in (2, 3) if quick else (2, 3, 4):
                    for vt, extra in variants(sid, n)[:2 if quick else None]:
                        name = f"real{seed}_s{session:02x}_{sid:02x}_n{n}{vt}"
                        src.append(REAL.format(name=name, n=n - 1, sid=sid, seed=seed, session=session, extra=extra))
                        obs.append({"name": name, "module_path": path, "function": name, "cap": 400, "opaque": True, "twin_cap": 60,
                                    "meta": {"real_seed": seed, "start_session": session, "service_id": hex(sid), "request_len": n}})
    with open(path, "w") as f:
        f.write("\n".join(src))
    return obs
