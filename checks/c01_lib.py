"""Harness bodies for C01 (run under CrossHair and on the plain interpreter)."""
import struct

from engine.hlib import check, done
from gallia.services.uds.core import service as S
from spec.requests import B, N, SF, U  # noqa: F401  (used by generated code)


def get(obj, path):
    if "+" in path:
        a, b = path.split("+")
        return getattr(obj, a) + getattr(obj, b)
    return getattr(obj, path)


def roundtrip(cls, make, expected, fields, dyn_fields, own_fields, sid):
    r = make()  # parameters are inside their documented range: construction must succeed
    pdu = r.pdu
    check(pdu == expected, "serialised PDU differs from the ISO 14229-1 layout")
    for attr, val in fields.items():
        check(get(r, attr) == val, "constructed object exposes a different " + attr)
    p = S.UDSRequest.parse_dynamic(expected)
    check(not isinstance(p, S.RawRequest), "well-formed request degraded to RawRequest by the dynamic parser")
    check(p.service_id == sid, "dynamic parser returned a request of another service")
    check(p.pdu == expected, "dynamically parsed request re-serialises differently")
    for attr, val in dyn_fields.items():
        check(get(p, attr) == val, "dynamic parser lost field " + attr)
    q = cls.from_pdu(expected)
    check(q.pdu == expected, "from_pdu result re-serialises differently")
    for attr, val in own_fields.items():
        check(get(q, attr) == val, "from_pdu lost field " + attr)
    return done()


REFUSAL = (ValueError, OverflowError, struct.error, TypeError)


def refused(make):
    """A parameter is outside its documented range: the request must be refused with an error,
    either at construction or when the PDU is built -- never encoded."""
    try:
        r = make()
        pdu = r.pdu
    except REFUSAL:
        return done()
    check(False, "out-of-range parameter was encoded into a PDU: " + pdu.hex())
    return done()


class _Rec:
    pass


def client_tie(method_name, kwargs, expected):
    """the bytes a UDSClient service method hands to the request path equal the ISO reference encoding"""
    from gallia.services.uds.core.client import UDSClient

    client = UDSClient(_Rec(), timeout=1.0)
    seen = []

    async def record(request, config=None):
        seen.append(request)
        return None

    client.request = record
    from engine.hlib import drive

    drive(getattr(client, method_name)(**kwargs))
    check(len(seen) == 1, "client method did not issue exactly one request")
    check(seen[0].pdu == expected, "bytes handed to the transport by UDSClient." + method_name + "() differ from the ISO 14229-1 layout")
    return done()
