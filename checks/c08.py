"""C08 -- connection loss surfaces as a bounded-time error and the next attempt recovers."""
import os

INFO = {
    "level": "model_checking",
    "bounds": {
        "quick": "transports tcp-lines, unix-lines, DoIP, HSFZ on fake streams; exchange write -> (ack) -> read; the peer delivers a symbolic prefix (every byte offset) of its "
                 "stream at a symbolic instant and then closes (EOF) / resets / stays silent at a symbolic instant; caller timeout symbolic or none; close() twice afterwards; "
                 "tcp-lines + UDSClient(max_retry=1): cut during the first exchange, peer accepting again from a symbolic instant",
        "thorough": "the same with two delivery chunks",
    },
    "stubs": ["TCP/unix sockets -> StreamReader/StreamWriter on a fake transport; asyncio.open_connection patched (refuses before the restart instant)",
              "virtual-time loop", "pydantic configs concrete", "logger.* stripped"],
    "outside": ["kernel behaviour (RST vs FIN timing, buffers)", "DoIP/HSFZ reconnect through the client (routing activation covered in C06)", "ECU._wait_for_ecu_endless_loop"],
    "assumptions": ["ties unconstrained"],
}

EX = '''
def {name}(cut: int, t1: int, t2: int, to: int{extra_param}) -> bool:
    """
    pre: {lo} <= cut <= {hi}
    pre: 0 <= t1 <= t2 <= 3000000
    pre: 100000 <= to <= 3000000
    post: _
    """
    return exchange({kind!r}, cut, t1, t2, {how!r}, to, {has_to})
'''


def obligations(tier, scratch):
    from checks import c06_lib, c07_lib

    quick = tier == "quick"
    path = os.path.join(scratch, "gen_c08.py")
    src = ["from checks.c08_lib import exchange, client_recovers", ""]
    obs = []
    lens = {"tcp": 9, "unix": 9, "doip": len(c06_lib.F("ack") + c06_lib.F("data")), "hsfz": len(c07_lib.F("ack") + c07_lib.F("data"))}
    for kind in ("tcp", "unix", "doip", "hsfz"):
        for how in ("eof", "reset", "silence"):
            for has_to in (True, False):
                if how == "silence" and not has_to and kind in ("tcp", "unix"):
                    continue  # silence without any timeout on a line transport legitimately waits
                parts = 1 if kind in ("tcp", "unix") else 4
                total = lens[kind]
                for q in range(parts):
                    lo = (total + 1) * q // parts
                    hi = (total + 1) * (q + 1) // parts - 1
                    name = f"x_{kind}_{how}_{'to' if has_to else 'noto'}" + (f"_p{q}" if parts > 1 else "")
                    src.append(EX.format(name=name, kind=kind, how=how, has_to=has_to, lo=lo, hi=hi, extra_param=""))
                    obs.append({"name": name, "module_path": path, "function": name, "cap": 900, "opaque": True, "twin_cap": 120,
                                "meta": {"transport": kind, "cut_kind": how, "caller_timeout": "symbolic" if has_to else None, "cut_offset": [lo, hi]}})
    for how in ("eof", "reset"):
        name = f"recover_tcp_{how}"
        src.append(f'''
def {name}(cut: int, t1: int, t2: int, restart: int) -> bool:
    """
    pre: 0 <= cut <= 9
    pre: 0 <= t1 <= t2 <= 1500000
    pre: 0 <= restart <= 3000000
    post: _
    """
    return client_recovers(cut, t1, t2, {how!r}, restart)
''')
        obs.append({"name": name, "module_path": path, "function": name, "cap": 900, "opaque": True, "twin_cap": 120,
                    "meta": {"transport": "tcp-lines + UDSClient(max_retry=1)", "cut_kind": how, "peer_restart": "symbolic instant"}})
    src.insert(1, "from checks.c07_lib import via_connect")
    for tag, uri, ato in (("default", "hsfz://127.0.0.1:6801?src_addr=0xf4&dst_addr=0x10", 1000),
                          ("250", "hsfz://127.0.0.1:6801?src_addr=0xf4&dst_addr=0x10&ack_timeout=250", 250)):
        name = f"hsfz_ack_time_{tag}"
        src.append(f'''
def {name}(t_ack: int) -> bool:
    """
    pre: 0 <= t_ack <= 4000000
    post: _
    """
    return via_connect({uri!r}, {ato}, t_ack)
''')
        obs.append({"name": name, "module_path": path, "function": name, "cap": 300, "opaque": True, "twin_cap": 60,
                    "meta": {"set_up": "HSFZTransport.connect(" + uri + ")", "ack_instant": "symbolic", "acknowledgement_time_ms": ato}})
    with open(path, "w") as f:
        f.write("\n".join(src))
    return obs
