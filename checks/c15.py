"""C15 (control-flow claim) -- exit code / META / DB / lock / hooks consistency for every way a command can end."""
import os

INFO = {
    "level": "model_checking",
    "bounds": {
        "quick": "fault plan: exit kind in {none, SystemExit(n), SystemExit(text), ConnectionError, UDSException, other exception, KeyboardInterrupt} symbolic at each of setup / main / teardown "
                 "(up to three faults per run), n symbolic in {0, 1, 2, 74, 255}; artifacts dir, database, lock file, hooks, failing pre hook, failing post hook symbolic booleans; "
                 "command kinds: AsyncScript subclass and Scanner subclass (real Scanner.teardown)",
        "thorough": "n in {0, 1, 2, 3, 64, 70, 74, 75, 130, 254, 255} (every value is realised: 0..255 did not finish)",
    },
    "stubs": ["subprocess.run (hooks) -> recording stub with symbolic failure", "DBHandler -> recording stub", "artifacts dir -> recording fake path", "zstd log handler add/remove -> recording stubs",
              "flock -> recording stubs", "command config -> plain namespace", "logger.* calls of gallia.command.base are NOT stripped (their arguments are part of the failing-hook path); module logger -> no-op stub"],
    "outside": ["real files, zstd stream integrity, kernel flock, signals, rerun of the stored config", "UDSScanner.setup/teardown (ECU, tester present)", "faults inside the hooks/db stubs themselves"],
    "nostrip": ["gallia.command.base"],
    "assumptions": ["an exception raised in teardown replaces the one raised in main (Python semantics), a failing setup skips main and teardown"],
}


def obligations(tier, scratch):
    quick = tier == "quick"
    path = os.path.join(scratch, "gen_c15.py")
    src = ["from checks.c15_lib import entry", ""]
    obs = []
    nset = "n in (0, 1, 2, 74, 255)" if quick else "n in (0, 1, 2, 3, 64, 70, 74, 75, 130, 254, 255)"
    def add(name, kind, ps, pm, pt, pre, meta):
        src.append(f'''
def {name}(pm: int, pt: int, n: int, artifacts: bool, db: bool, lock: bool, hooks: bool, pre_fails: bool, post_fails: bool) -> bool:
    """
    pre: {pm} and {pt}
    pre: {nset}
    pre: {pre}
    post: _
    """
    return entry({kind!r}, {ps}, pm, pt, n, artifacts, db, lock, hooks, pre_fails, post_fails)
''')
        obs.append({"name": name, "module_path": path, "function": name, "cap": 900, "opaque": True, "twin_cap": 120, "meta": dict(meta, command_kind=kind)})

    allon = "artifacts and db and lock and hooks and not pre_fails and not post_fails"
    for kind in ("script", "scanner"):
        for pm in range(7):
            add(f"faults_{kind}_main{pm}", kind, 0, f"pm == {pm}", "0 <= pt <= 6", allon,
                {"fault_in_main": pm, "symbolic": "fault in teardown, exit status", "resources": "all on"})
        for ps in range(1, 7):
            add(f"faults_{kind}_setup{ps}", kind, ps, "pm == 0", "pt == 0", allon, {"fault_in_setup": ps, "symbolic": "exit status", "resources": "all on"})
        for pm in (0, 1, 5):
            add(f"resources_{kind}_main{pm}", kind, 0, f"pm == {pm}", "pt == 0", "n == 2",
                {"fault_in_main": pm, "symbolic": "artifacts, database, lock, hooks, failing pre hook, failing post hook"})
    with open(path, "w") as f:
        f.write("\n".join(src))
    return obs
