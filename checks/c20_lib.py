"""Harness bodies for C20: range algebra with symbolic numbers, integer notations, host:port and target URIs."""
import gallia.command  # noqa: F401
from engine.hlib import check, concrete, done, untraced
from gallia import net, utils
from gallia.command import config as C
from gallia.transports import TargetURI
from gallia.transports.doip import DoIPConfig
from gallia.transports.hsfz import HSFZConfig
from gallia.transports.isotp import ISOTPConfig
from spec import ranges as R


def _with_tokens(env, fn):
    """number tokens A..F stand for the (symbolic) integers of env: utils.auto_int is stubbed for exactly these tokens"""
    saved = utils.auto_int

    def stub(tok):
        tok = tok.strip()
        if tok in env:
            return env[tok]
        return saved(tok)

    utils.auto_int = stub
    try:
        return fn()
    finally:
        utils.auto_int = saved


def ranges_1d(template, env, via):
    env = concrete(env)  # solver-driven case split over the token values; the string algebra then runs on concrete numbers
    with untraced():
        return _ranges_1d(template, env, via)


def _ranges_1d(template, env, via):
    exp = R.expand_1d(template, env)
    if via == "unravel":
        got = _with_tokens(env, lambda: utils.unravel(template))
    elif via == "ranges_str":
        got = _with_tokens(env, lambda: C._process_ranges(template.replace(",", " ")))
    else:
        got = _with_tokens(env, lambda: C._process_ranges(template.split(",")))
    check(list(got) == exp, lambda: "range expression " + template + " denotes " + repr(got) + " expected " + repr(exp))
    return done()


def ranges_2d(template, env):
    env = concrete(env)
    with untraced():
        return _ranges_2d(template, env)


def _ranges_2d(template, env):
    exp = R.expand_2d(template, env)
    got = _with_tokens(env, lambda: utils.unravel_2d(template))
    check(list(got.keys()) == list(exp.keys()), lambda: "outer keys " + repr(list(got)) + " expected " + repr(list(exp)))
    for k in exp:
        check(got[k] == exp[k], lambda: "inner list of key " + repr(k) + " is " + repr(got[k]) + " expected " + repr(exp[k]))
    return done()


HEX = "0123456789abcdef"


def notation(kind, i, j, upper):
    i, j, upper = concrete((i, j, upper))
    with untraced():
        return _notation(kind, i, j, upper)


def _notation(kind, i, j, upper):
    if kind == "hex":
        s, val = "0x" + HEX[i] + HEX[j], 16 * i + j
    elif kind == "oct":
        s, val = "0o" + HEX[i] + HEX[j], 8 * i + j
    elif kind == "bin":
        s, val = "0b" + HEX[i] + HEX[j], 2 * i + j
    else:
        s, val = (HEX[j] if i == 0 else HEX[i] + HEX[j]), 10 * i + j
    if upper:
        s = s.upper()
    check(utils.auto_int(s) == val, lambda: "auto_int(" + s + ")")
    check(utils.unravel(s) == [val], lambda: "unravel(" + s + ")")
    return done()


def hostport(host, port):
    joined = net.join_host_port(host, port)
    h, p = net.split_host_port(joined)
    check(h == host, lambda: "host " + repr(host) + " became " + repr(h) + " via " + repr(joined))
    check(p == port, lambda: "port " + repr(port) + " became " + repr(p) + " via " + repr(joined))
    return done()


def uri_roundtrip(scheme, host, port_present, port, src, dst, extra_int):
    """what the discovery scanners do: build a URI from parts, print it, parse it again, hand its parameters to the transport"""
    port_present, port, src, dst, extra_int = concrete((port_present, port, src, dst, extra_int))
    with untraced():  # urllib / pydantic on the realised values (solver-driven case split over the windows)
        return _uri_roundtrip(scheme, host, port_present, port, src, dst, extra_int)


def _uri_roundtrip(scheme, host, port_present, port, src, dst, extra_int):
    prt = port if port_present else None
    if scheme == "hsfz":
        args = {"src_addr": f"{src:#02x}", "dst_addr": f"{dst:#02x}", "ack_timeout": extra_int}
    elif scheme == "doip":
        args = {"src_addr": f"{src:#06x}", "target_addr": f"{dst:#06x}", "activation_type": extra_int}
    else:
        args = {"src_addr": f"{src:#x}", "dst_addr": f"{dst:#x}", "ext_address": f"{dst:#02x}", "rx_ext_address": f"{src:#02x}",
                "tx_padding": extra_int, "is_extended": False}
    u = TargetURI.from_parts(scheme, host, prt, args)
    t = TargetURI(str(u))
    check(t.scheme.value == scheme if hasattr(t.scheme, "value") else str(t.scheme) == scheme, "scheme changed")
    check(t.hostname == host, lambda: "host " + repr(host) + " parses back as " + repr(t.hostname) + " from " + str(u))
    check(t.port == prt, lambda: "port " + repr(prt) + " parses back as " + repr(t.port) + " from " + str(u))
    flat = t.qs_flat
    for k, v in args.items():
        check(k in flat, lambda: "parameter " + k + " missing from " + str(u))
        check(flat[k] == str(v), lambda: "parameter " + k + " changed to " + repr(flat.get(k)))
    check(len(flat) == len(args), "additional parameters appeared")
    flat = concrete(flat)
    with untraced():
        if scheme == "hsfz":
            cfg = HSFZConfig(**flat)
            got = (cfg.src_addr, cfg.dst_addr, cfg.ack_timeout)
        elif scheme == "doip":
            cfg = DoIPConfig(**flat)
            got = (cfg.src_addr, cfg.target_addr, cfg.activation_type)
        else:
            cfg = ISOTPConfig(**flat)
            got = (cfg.src_addr, cfg.dst_addr, cfg.ext_address, cfg.rx_ext_address, cfg.tx_padding, cfg.is_extended)
    exp = (src, dst, extra_int) if scheme != "isotp" else (src, dst, dst, src, extra_int, False)
    ok = got == exp
    check(ok, lambda: "the transport of scheme " + scheme + " sees other numeric settings than were emitted: " + str(u))
    return done()
