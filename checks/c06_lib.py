"""Harness for C06: the real DoIPConnection / DoIPTransport on the virtual-time loop against a scripted gateway."""
import asyncio
import struct

from engine.hlib import check, done, reraise, untraced
from engine.vloop import Peer, VLoop, VTime, make_streams
from gallia.transports import TargetURI
from gallia.transports import doip as D
from gallia.transports.doip import DoIPConfig, DoIPConnection, DoIPTransport

SRC, DST = 0x0E00, 0x001D  # tester (source) and target logical addresses
URI = TargetURI("doip://127.0.0.1:13400?src_addr=0x0e00&target_addr=0x1d")
CFG = DoIPConfig(src_addr="0x0e00", target_addr="0x1d")
REQ = bytes([0x22, 0xF1, 0x90])
VER = 3
ACK_TO = 2_000_000
ALIVE_TO = 500_000


def frame(ptype, payload=b"", ver=VER):
    return struct.pack("!BBHL", ver, ver ^ 0xFF, ptype, len(payload)) + payload


def F(kind):
    """gateway alphabet"""
    if kind == "ack":
        return frame(0x8002, struct.pack("!HHB", DST, SRC, 0) + REQ)
    if kind == "ack_noecho":
        return frame(0x8002, struct.pack("!HHB", DST, SRC, 0))
    if kind == "ack_prefix":
        return frame(0x8002, struct.pack("!HHB", DST, SRC, 0) + REQ[:2])
    if kind == "ack_wrong_echo":
        return frame(0x8002, struct.pack("!HHB", DST, SRC, 0) + b"\x22\xf1\x91")
    if kind == "ack_wrong_addr":
        return frame(0x8002, struct.pack("!HHB", 0x001E, SRC, 0) + REQ)
    if kind == "nack_unreachable":
        return frame(0x8003, struct.pack("!HHB", DST, SRC, 0x06) + REQ)
    if kind == "nack_unknown_target":
        return frame(0x8003, struct.pack("!HHB", DST, SRC, 0x03) + REQ)
    if kind == "data":
        return frame(0x8001, struct.pack("!HH", DST, SRC) + b"\x62\xf1\x90\xaa")
    if kind == "data2":
        return frame(0x8001, struct.pack("!HH", DST, SRC) + b"\x62\xf1\x90\xbb\xcc")
    if kind == "foreign":
        return frame(0x8001, struct.pack("!HH", 0x001E, SRC) + b"\x62\xf1\x90\xee")
    if kind == "foreign_dst":
        return frame(0x8001, struct.pack("!HH", DST, 0x0E01) + b"\x62\xf1\x90\xef")
    if kind == "alive":
        return frame(0x0007)
    if kind == "unknown":
        return frame(0x4004, b"\x01")
    raise KeyError(kind)


ALIVE_REPLY = frame(0x0008, struct.pack("!H", SRC))
IS_DATA = ("data", "data2")
ACKS_OK = ("ack", "ack_noecho", "ack_prefix", "nack_unreachable")  # TargetUnreachable is tolerated by DoIPTransport.write
NACKS = ("nack_unknown_target",)
PAYLOAD_OFF = 12  # header (8) + address pair (4)


def run_coalesced(script, t0, cut, gap, ack_timeout_ms, read_timeout_us, reads):
    """the whole gateway stream arrives as ONE segment at t0, or as two segments cut at byte offset `cut` (tail `gap` later)"""
    return run(script, None, -1, 0, 0, ack_timeout_ms, read_timeout_us, reads, stream=(t0, cut, gap))


def run(script, times, split_idx, split_off, gap, ack_timeout_ms, read_timeout_us, reads, stream=None):
    """client: write(REQ) at time 0, then `reads` reads with the given timeout.  Gateway: frames of `script` in stream order,
    frame i delivered at times[i] (non-decreasing); frame split_idx is cut at split_off and its tail delivered `gap` later."""
    n = len(script)
    t0 = cut = sgap = 0
    blob = b""
    if stream is not None:
        t0, cut, sgap = stream
        blob = b"".join(F(k) for k in script)
        if not (0 <= cut <= len(blob)):
            return True
        times = []
        pos = 0
        for k in script:
            pos += len(F(k))
            times.append(t0 if pos <= cut or cut == 0 and False else t0 + sgap)
        if cut == 0 or cut == len(blob):
            times = [t0 + (sgap if cut == 0 else 0)] * n
        gap = 0
    if 0 <= split_idx < n - 1 and not (times[split_idx] + gap <= times[split_idx + 1]):
        return True  # one TCP stream: the tail of the cut frame precedes the next frame (assume)
    loop = VLoop()
    res = {"reads": []}
    box = {}

    async def main():
        reader, writer, tr, proto = make_streams(loop)
        box["tr"] = tr
        conn = DoIPConnection(reader, writer, SRC, DST, VER)
        t = DoIPTransport(URI, 13400, CFG, conn)
        box["conn"] = conn
        peer = Peer(loop, reader, proto)
        if stream is not None:
            if cut == 0 or cut == len(blob):
                peer.feed_at(VTime(times[0]) if n else VTime(t0), blob)
            else:
                peer.feed_at(VTime(t0), blob[:cut])
                peer.feed_at(VTime(t0 + sgap), blob[cut:])
        for i, kind in enumerate(script if stream is None else []):
            b = F(kind)
            if i == split_idx and 0 < split_off < len(b):
                peer.feed_at(VTime(times[i]), b[:split_off])
                peer.feed_at(VTime(times[i] + gap), b[split_off:])
            else:
                peer.feed_at(VTime(times[i] + (gap if i == split_idx else 0)), b)
        try:
            await t.write(REQ)
            res["write"] = ("ok", loop.now.us)
        except ConnectionError as e:
            res["write"] = ("connerr", loop.now.us)
            return
        for _ in range(reads):
            try:
                d = await t.read(timeout=VTime(read_timeout_us))
                res["reads"].append(("data", d, loop.now.us))
            except TimeoutError:
                res["reads"].append(("timeout", None, loop.now.us))
            except (ConnectionError, OSError):
                res["reads"].append(("connerr", None, loop.now.us))
                return

    task = loop.run(main(), max_steps=60000)
    check(task.done(), "client blocks forever")
    reraise(task)
    # ---- reference ----
    comp = [times[i] + (gap if i == split_idx else 0) for i in range(n)]
    ack_to = ACK_TO
    ack_at = None
    nack_at = None
    for i, kind in enumerate(script):
        if kind in ACKS_OK and ack_at is None and nack_at is None:
            ack_at = comp[i]
        if kind in NACKS and nack_at is None and ack_at is None:
            nack_at = comp[i]
    wk, wt = res["write"]
    if nack_at is not None and nack_at < ack_to:
        check(wk == "connerr", "negative acknowledgement did not surface as a connection error")
        check(wt == nack_at, "negative acknowledgement did not surface when it arrived")
    elif ack_at is not None and ack_at < ack_to:
        check(wk == "ok", "write failed although the gateway acknowledged the message in time")
        check(wt == ack_at, "write did not complete when the acknowledgement arrived")
    elif (ack_at is None or ack_at > ack_to) and (nack_at is None or nack_at > ack_to):
        check(wk == "connerr", "write completed without an acknowledgement")
        check(wt <= ack_to, "missing acknowledgement surfaced later than the acknowledgement time")
        check(wt == ack_to, "missing acknowledgement did not surface at the acknowledgement time")
        check(box["conn"]._is_closed, "connection not closed after the acknowledgement timeout")
    written = box["tr"].written
    close_at = box["tr"].closed_at
    # every alive-check request is answered within the alive-check time whatever the client is doing
    for i, kind in enumerate(script):
        if kind == "alive" and (close_at is None or comp[i] + ALIVE_TO < close_at):
            hits = [t for (t, d) in written if d == ALIVE_REPLY and comp[i] <= t <= comp[i] + ALIVE_TO]
            check(len(hits) >= 1, "alive-check request not answered within the alive-check time")
    check(written[0][1] == frame(0x8001, struct.pack("!HH", SRC, DST) + REQ), "diagnostic message on the wire differs")
    if wk == "ok":
        exp = [(F(k)[PAYLOAD_OFF:], comp[i]) for i, k in enumerate(script) if k in IS_DATA]
        t_now = wt
        k = 0
        for j in range(reads):
            if j >= len(res["reads"]):
                break
            rk, rd, rt = res["reads"][j]
            deadline = t_now + read_timeout_us
            if k < len(exp):
                payload, at = exp[k]
                ready = at if at > t_now else t_now
                if ready < deadline:
                    check(rk == "data", "read did not deliver a diagnostic message that arrived before its deadline")
                    check(rd == payload, "read delivered other bytes than the next diagnostic message of the target (order/content)")
                    check(rt == ready, "read did not complete when the message was available")
                elif ready > deadline:
                    check(rk == "timeout", "read returned after its deadline")
                if rk == "data":
                    k += 1
            else:
                check(rk == "timeout", "read delivered something that is not a diagnostic message from the target to the source")
            t_now = rt
        # frames other than the awaited ones are not lost for later reads: foreign diagnostic messages stay queued
        if not box["conn"]._is_closed:
            left = []
            q = box["conn"]._read_queue
            while not q.empty():
                left.append(q.get_nowait())
            n_foreign = sum(1 for kd in script if kd in ("foreign", "foreign_dst"))
            got_foreign = sum(1 for (h, pl) in left if isinstance(pl, D.DiagnosticMessage) and (pl.SourceAddress != DST or pl.TargetAddress != SRC))
            all_arrived = all(c <= loop.now.us for c in comp)
            if all_arrived:
                check(got_foreign == n_foreign, "a diagnostic message for another address pair was lost instead of staying queued")
    return done()


def codec(b):
    """GenericHeader pack/unpack: big-endian fields, inverse-version rule"""
    try:
        h = D.GenericHeader.unpack(b)
    except ValueError:
        check(b[1] != 255 - b[0], "valid inverse protocol version rejected")
        return done()
    check(b[1] == 255 - b[0], "header with a wrong inverse protocol version accepted")
    check(h.ProtocolVersion == b[0], "protocol version")
    check(h.PayloadType == b[2] * 256 + b[3], "payload type is not the big-endian value of bytes 2..3")
    check(h.PayloadLength == ((b[4] * 256 + b[5]) * 256 + b[6]) * 256 + b[7], "payload length is not the big-endian value of bytes 4..7")
    check(h.pack() == b, "header does not re-serialise")
    return done()


def activation(src, atype, ver, code, at):
    """DoIPTransport._connect: the routing activation request carries exactly the configured source address, activation type
    and protocol version; the connection is usable iff the gateway answers with the success code (0x10) in time."""
    loop = VLoop()
    box = {}
    saved = asyncio.open_connection

    async def fake_open(host, port, **kw):
        reader, writer, tr, proto = make_streams(loop)
        box["tr"] = tr
        peer = Peer(loop, reader, proto)
        resp = struct.pack("!BBHL", ver, 255 - ver, 0x0006, 9) + struct.pack("!HHBI", src, DST, code, 0)
        peer.feed_at(VTime(at), resp)
        return reader, writer

    async def main():
        asyncio.open_connection = fake_open
        try:
            try:
                conn = await DoIPTransport._connect("127.0.0.1", 13400, src, DST, atype, ver)
                return ("ok", conn, loop.now.us)
            except ConnectionError as e:
                return ("denied" if isinstance(e, D.DoIPRoutingActivationDeniedError) else "connerr", None, loop.now.us)
        finally:
            asyncio.open_connection = saved

    task = loop.run(main(), max_steps=40000)
    asyncio.open_connection = saved
    check(task.done(), "connect blocks forever")
    reraise(task)
    kind, conn, when = task.result()
    w = box["tr"].all_written()
    exp = struct.pack("!BBHL", ver, 255 - ver, 0x0005, 7) + struct.pack("!HBI", src, atype, 0)
    check(w[:len(exp)] == exp, "routing activation request does not carry the configured source address / activation type / protocol version")
    if at < ACK_TO:
        if code == 0x10:
            check(kind == "ok", "connection refused although the gateway answered with the success code")
            check(when == at, "connect did not complete when the response arrived")
        else:
            check(kind != "ok", "connection treated as usable although the gateway did not answer with the success code")
    elif at > ACK_TO:
        check(kind != "ok" and when <= ACK_TO, "missing routing activation response did not surface within the response time")
    return done()


def activation_uri(uri, src, target, atype, ver, code, at):
    """the same through the public entry DoIPTransport.connect(<target URI>): the URI's parameters (any integer notation) are the
    ones carried by the routing activation request"""
    loop = VLoop()
    box = {}
    saved = (asyncio.open_connection, D.DoIPConfig)
    real_cfg = D.DoIPConfig

    def cfg(**kw):
        with untraced():  # pydantic validation of the concrete URI text
            return real_cfg(**kw)

    async def fake_open(host, port, **kw):
        reader, writer, tr, proto = make_streams(loop)
        box.update(tr=tr, host=host, port=port)
        peer = Peer(loop, reader, proto)
        peer.feed_at(VTime(at), struct.pack("!BBHL", ver, 255 - ver, 0x0006, 9) + struct.pack("!HHBI", src, target, code, 0))
        return reader, writer

    async def main():
        asyncio.open_connection = fake_open
        D.DoIPConfig = cfg
        try:
            try:
                t = await DoIPTransport.connect(TargetURI(uri))
                return ("ok", t, loop.now.us)
            except ConnectionError:
                return ("refused", None, loop.now.us)
        finally:
            asyncio.open_connection, D.DoIPConfig = saved

    task = loop.run(main(), max_steps=40000)
    asyncio.open_connection, D.DoIPConfig = saved
    check(task.done(), "connect blocks forever")
    reraise(task)
    kind, t, when = task.result()
    exp = struct.pack("!BBHL", ver, 255 - ver, 0x0005, 7) + struct.pack("!HBI", src, atype, 0)
    check(box["tr"].all_written()[:len(exp)] == exp, "routing activation request does not carry the URI's source address / activation type / protocol version")
    if at < ACK_TO:
        check((kind == "ok") == (code == 0x10), "connection usable although not activated with the success code (or refused although it was)")
        if kind == "ok":
            check(t._conn.src_addr == src and t._conn.target_addr == target, "connection does not use the URI's address pair")
    elif at > ACK_TO:
        check(kind == "refused", "connect succeeded without a routing activation response in time")
    return done()
