"""Harness for C12 (narrow claim): (i) client and replaying server track session / security level identically for every typed
response; (ii) DBUDSServer.respond_after_default: query parameters, cursor advance, NULL reply, wrap-around -- against a
scripted connection (which row sqlite selects is outside the claim)."""
from binascii import hexlify

import gallia.command  # noqa: F401
from engine.hlib import check, done, drive
from gallia.services.uds import ecu as E
from gallia.services.uds import server as SV
from gallia.services.uds.core import service as S


class NullTransport:
    pass


def state_agreement(response_bytes, session, level):
    try:
        response = S.UDSResponse.parse_dynamic(response_bytes)
    except Exception:  # noqa: BLE001
        return done()
    request = S.RawRequest(bytes([0x3E, 0x00]))
    lvl = None if level == 0 else level
    client = E.ECU(NullTransport(), timeout=1.0)
    client.state.session = session
    client.state.security_access_level = lvl
    server = object.__new__(SV.DBUDSServer)
    server.state = E.ECUState()
    server.state.session = session
    server.state.security_access_level = lvl
    drive(client.update_state(request, response))
    drive(server.update_state(request, response))
    check(client.state.session == server.state.session and client.state.security_access_level == server.state.security_access_level,
          lambda: "after this reply the client logs state (" + str(client.state.session) + ", " + str(client.state.security_access_level)
          + ") but the replaying server derives (" + str(server.state.session) + ", " + str(server.state.security_access_level) + ")")
    return done()


class Cursor:
    def __init__(self, row):
        self.row = row

    async def fetchone(self):
        return self.row


class ScriptedConnection:
    def __init__(self, rows):
        self.rows = list(rows)
        self.calls = []

    async def execute(self, query, params=None):
        self.calls.append((query, list(params)))
        return Cursor(self.rows.pop(0) if self.rows else None)


def replay_step(has_ecu, has_props, session, level, last, first_hit, second_hit, row_id, reply_null, request_tail):
    request = S.UDSRequest.parse_dynamic(bytes([0x22]) + request_tail)
    reply = bytes([0x62]) + request_tail + b"\xaa"
    row = (row_id, None if reply_null else hexlify(reply))
    rows = [row if first_hit else None, row if second_hit else None]
    srv = object.__new__(SV.DBUDSServer)
    srv.state = E.ECUState()
    srv.state.session = session
    srv.state.security_access_level = None if level == 0 else level
    srv.ecu = "ecu-a" if has_ecu else None
    srv.properties = {"sw": "1.0", "hw": None} if has_props else None
    srv.connection = ScriptedConnection(rows)
    srv.last_response = last
    out = drive(srv.respond_after_default(request))
    calls = srv.connection.calls
    exp = (["ecu-a"] if has_ecu else []) + [session] + ([] if level == 0 else [level]) + (['"1.0"'] if has_props else [])
    exp += [hexlify(request.pdu).decode(), last]
    check(len(calls) >= 1 and calls[0][1] == exp, lambda: "query parameters " + repr(calls[0][1]) + " expected " + repr(exp))
    check("r.id > ?" in calls[0][0], "first query does not look for the next row after the cursor")
    hit = first_hit or second_hit
    if first_hit:
        check(len(calls) == 1, "wrap-around query issued although the first query returned a row")
    else:
        check(len(calls) == 2 and "r.id <= ?" in calls[1][0] and calls[1][1] == exp, "wrap-around query not issued with the same parameters")
    if hit:
        check(srv.last_response == row_id, "cursor not advanced to the served row")
        if reply_null:
            check(out is None, "silence expected for a row without reply")
            check(srv.state.session == 1 and srv.state.security_access_level is None, "state not reset for a row without reply")
        else:
            check(out is not None and out.pdu == reply, "recorded reply bytes not replayed exactly")
    else:
        check(out is None and srv.last_response == last, "answer / cursor change without a matching row")
    return done()
