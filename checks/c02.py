"""C02 -- decoded responses expose the received fields and re-encode to the same bytes."""
import os

INFO = {
    "level": "model_checking",
    "bounds": {
        "quick": "every first byte 0x00..0xFF x total length 1..3 with all other bytes symbolic; typed response ids x length 4..8",
        "thorough": "every first byte 0x00..0xFF x length 1..4; typed response ids x length 5..12; per class via from_pdu lengths 1..8",
    },
    "stubs": ["logger.* calls stripped (AST rewrite at import)", "symbolic ints rendered opaquely by hex()/format() (only flows into exception messages)"],
    "outside": ["responses longer than the stated lengths (layouts are position independent beyond the header: extrapolation, not a claim)",
                "the database column (covered by C11: it stores response.pdu)"],
    "assumptions": ["reference layouts in spec/responses.py transcribe ISO 14229-1 correctly"],
}

TEMPLATE = '''
def {name}(tail: bytes) -> bool:
    """
    pre: len(tail) == {n}
    post: _
    """
    return body(bytes([{first}]) + tail{via})
'''


def obligations(tier, scratch):
    from gallia.services.uds.core import service as S
    from spec import responses

    typed_ids = set()
    classes = {}
    for sid, svc in S.UDSService._SERVICES.items():
        if sid is None:
            continue
        rs = []
        if svc.Response is not None:
            rs.append(svc.Response)
        for v in vars(svc).values():
            if isinstance(v, type) and getattr(v, "Response", None) is not None:
                rs.append(v.Response)
        if rs:
            typed_ids.add(int(sid) + 0x40)
        for r in rs:
            classes[r.__name__] = r
    typed_ids.add(0x7F)
    missing = typed_ids - set(responses.TYPED_IDS)
    if missing:
        raise RuntimeError(f"unmapped kind: response ids {sorted(map(hex, missing))} registered in gallia but not in spec/responses.py")
    src = ["from checks.c02_lib import body", "from gallia.services.uds.core import service as S", ""]
    obs = []
    if tier == "quick":
        sweep_lens, deep_lens, cls_lens = (1, 2, 3), (4, 5, 6, 7, 8), ()
    else:
        sweep_lens, deep_lens, cls_lens = (1, 2, 3, 4), (5, 6, 7, 8, 9, 10, 11, 12), (1, 2, 3, 4, 5, 6, 7, 8)
    path = os.path.join(scratch, "gen_c02.py")

    def add(name, first, n, via="", cap=120, meta=None):
        src.append(TEMPLATE.format(name=name, n=n - 1, first=first, via=via))
        obs.append({"name": name, "module_path": path, "function": name, "cap": cap, "opaque": True,
                    "twin_cap": 30, "meta": meta or {"first_byte": hex(first), "length": n, "symbolic_bytes": n - 1}})

    for first in range(256):
        for n in sweep_lens:
            add(f"sweep_{first:02x}_n{n}", first, n)
    for first in sorted(typed_ids):
        for n in deep_lens:
            add(f"deep_{first:02x}_n{n}", first, n, cap=300)
    for cname, cls in sorted(classes.items()):
        rid = cls.RESPONSE_SERVICE_ID
        if rid is None:
            continue
        for n in cls_lens:
            add(f"cls_{cname}_n{n}", rid, n, via=f", S.{cname}", cap=300,
                meta={"class": cname, "via": "from_pdu", "length": n})
    with open(path, "w") as f:
        f.write("\n".join(src))
    return obs
