"""Harness for C10: the real ServicesScanner and ScanIdentifiers against a stub ECU whose answers are symbolic."""
import types

from engine.hlib import check, done, drive
from gallia.commands.scan.uds import identifiers as IDM
from gallia.commands.scan.uds import services as SVM
from gallia.services.uds.core import service as S
from gallia.services.uds.core.constants import UDSErrorCodes, UDSIsoServices
from gallia.services.uds.core.exception import MalformedResponse, MissingResponse, RequestResponseMismatch

W = 4  # identifier window
# probe outcomes
SNS, SNSIAS, IMLOIF, OTHER, POS, TIMEOUT, ILLEGAL, ROOR, SFNS = range(9)


class Log:
    def __init__(self):
        self.results = []

    def result(self, msg, *a, **k):
        self.results.append(str(msg))

    def __getattr__(self, name):
        return lambda *a, **k: None


class SkipMap:
    """session -> container; `keep` ids are probed, everything else is skipped (O(1) membership)"""

    def __init__(self, sessions, keep, extra_skip):
        self.sessions, self.keep, self.extra = sessions, keep, extra_skip

    def __contains__(self, session):
        return session in self.sessions

    def __getitem__(self, session):
        return _Ids(self.keep, self.extra)


class _Ids:
    def __init__(self, keep, extra):
        self.keep, self.extra = keep, extra

    def __contains__(self, i):
        if i not in self.keep:
            return True
        return i in self.extra and bool(self.extra[i])


OTHER_CODES = (0x33, 0x12, 0x7E, 0x31, 0x22, 0x10, 0x78 + 0)  # "any other negative response": incl. sub-function / range codes


class StubECU:
    other_code = 0x33

    def __init__(self, answer, session_ok):
        self.answer = answer  # (session, pdu) -> outcome
        self.session_ok = session_ok  # session -> bool
        self.session = None
        self.requests = []
        self.max_retry = 3

    async def set_session(self, level, config=None, use_db=True):
        if self.session_ok.get(level, True):
            self.session = level
            return S.DiagnosticSessionControlResponse(level)
        return S.NegativeResponse(0x10, UDSErrorCodes.conditionsNotCorrect)

    async def leave_session(self, level, config=None, sleep=None):
        self.session = 1
        return True

    async def check_and_set_session(self, expected, retries=3):
        return True

    async def send_raw(self, pdu, config=None):
        self.requests.append((self.session, bytes(pdu)))
        request = S.RawRequest(pdu)
        out = self.answer(self.session, pdu)
        sid = pdu[0]
        if out == TIMEOUT:
            raise MissingResponse(request)
        if out == ILLEGAL:
            raise RequestResponseMismatch(request, S.RawPositiveResponse(bytes([0x50, 0x01])))
        if out == POS:
            return S.RawPositiveResponse(bytes([(sid + 0x40) % 256]) + bytes(pdu[1:3]))
        code = {SNS: 0x11, SNSIAS: 0x7F, IMLOIF: 0x13, OTHER: self.other_code, ROOR: 0x31, SFNS: 0x12}[out]
        return S.NegativeResponse(sid, UDSErrorCodes(code))


def services_scan(probed, implemented, unsupported_code, outcomes, others, sessions, session_ok, scan_response_ids, skip_probed, oc=0):
    """probed: the service id whose behaviour is symbolic; others: {sid: concrete outcome}; sessions: None or list"""
    sess = [None] if sessions is None else sessions
    keep = set(others) | {probed}

    def answer(session, pdu):
        sid = pdu[0]
        if sid == probed:
            if not implemented:
                return SNS if unsupported_code == 0 else SNSIAS
            k = {2: 0, 3: 1, 4: 2, 6: 3}[len(pdu)]
            return outcomes[k]
        return others.get(sid, SNS)

    ecu = StubECU(answer, session_ok)
    ecu.other_code = 0x33 if oc == 0 else (0x12 if oc == 1 else (0x7E if oc == 2 else (0x31 if oc == 3 else (0x22 if oc == 4 else 0x10))))
    sc = object.__new__(SVM.ServicesScanner)
    sc.config = types.SimpleNamespace(sessions=sessions, check_session=False, scan_response_ids=scan_response_ids, reset=None,
                                      skip=SkipMap(sess, keep, {probed: skip_probed}))
    sc.ecu = ecu
    sc.result = []
    log = Log()
    saved = SVM.logger
    SVM.logger = log
    exited = False
    try:
        try:
            drive(sc.main())
        except SystemExit:
            exited = True
    finally:
        SVM.logger = saved
    # ---- oracle ----
    def found(sid):
        if sid & 0x40 and not scan_response_ids:
            return False
        if sid == probed:
            if skip_probed or not implemented:
                return False
            return any(o in (OTHER, POS) for o in outcomes)
        return others[sid] in (OTHER, POS)

    entered = [s for s in sess if s is None or session_ok.get(s, True)]
    exp = []
    for s in entered:
        for sid in sorted(keep):
            if found(sid):
                exp.append((0 if s is None else s, sid))
    got = list(sc.result)
    check(sorted(got) == sorted(exp), lambda: "reported " + repr(sorted(got)) + " expected " + repr(sorted(exp)))
    # every probe was sent in the session it is reported for, with the documented probe PDUs; skipped ids never probed
    for session, pdu in ecu.requests:
        check(session in entered, "probe sent in a session that was not entered")
        check(pdu[0] in keep, "probe for a skipped service id")
        check(not (pdu[0] == probed and skip_probed), "probe for a skipped service id")
        check(not (pdu[0] & 0x40) or scan_response_ids, "response id probed although not asked")
        check(len(pdu) in (2, 3, 4, 6) and pdu[1:] == bytes(len(pdu) - 1), "unexpected probe PDU")
    for s in entered:
        for sid in sorted(keep):
            if sid & 0x40 and not scan_response_ids:
                continue
            if sid == probed and skip_probed:
                continue
            check(any(ss == s and p[0] == sid for ss, p in ecu.requests), "a service id was not probed in a requested session")
    return done()


def full_range(scan_response_ids, supported):
    """the whole 0x00..0xFF loop against an ECU that answers serviceNotSupported except for `supported` ids (concrete set)"""
    def answer(session, pdu):
        return POS if pdu[0] in supported else SNS

    ecu = StubECU(answer, {})
    sc = object.__new__(SVM.ServicesScanner)
    sc.config = types.SimpleNamespace(sessions=None, check_session=False, scan_response_ids=scan_response_ids, reset=None, skip={})
    sc.ecu = ecu
    sc.result = []
    saved = SVM.logger
    SVM.logger = Log()
    try:
        drive(sc.main())
    finally:
        SVM.logger = saved
    probed = sorted({p[0] for _, p in ecu.requests})
    exp = [i for i in range(256) if scan_response_ids or not i & 0x40]
    check(probed == exp, "the set of probed service ids is not 0x00-0xFF (response ids only when asked)")
    check(sorted(sc.result) == sorted((0, i) for i in exp if i in supported), "reported set differs from the supported set")
    return done()


def identifier_scan(service, base, a, b, j, oj, kj, payload):
    """ids base+a .. base+b (window of W); identifier base+j has a symbolic outcome and skip flag, the others answer positively"""
    outcomes = [oj if i == j else POS for i in range(W)]
    skips = [bool(kj) if i == j else False for i in range(W)]
    start, end = base + a, base + b
    session = 2

    def did_of(pdu):
        if service == 0x27:
            return pdu[1]
        if service == 0x31:
            return pdu[2] * 256 + pdu[3]
        return pdu[1] * 256 + pdu[2]

    def answer(sess, pdu):
        return outcomes[did_of(pdu) - base]

    ecu = StubECU(answer, {})
    sc = object.__new__(IDM.ScanIdentifiers)
    window = {base + i for i in range(W)}
    sc.config = types.SimpleNamespace(sessions=[session], start=start, end=end, payload=payload, service=UDSIsoServices(service), check_session=None,
                                      skip=SkipMap([session], window, {base + i: skips[i] for i in range(W)}), skip_not_supported=False,
                                      power_cycle_sleep=0)
    sc.ecu = ecu
    log = Log()
    saved = IDM.logger
    IDM.logger = log
    try:
        try:
            drive(sc.main())
        except SystemExit:
            check(False, "identifier scan exited with an error")
    finally:
        IDM.logger = saved
    # ---- oracle ----
    hi = end
    if service == 0x27 and hi > 0x7F:
        hi = 0x7F
    subs = [1, 2, 3] if service == 0x31 else [0]
    exp_pdus = []
    pos = abnormal = timeouts = 0
    for did in range(start, hi + 1):
        if skips[did - base]:
            continue
        for sf in subs:
            if service == 0x27:
                p = bytes([0x27, did])
            elif service == 0x31:
                p = bytes([0x31, sf, did >> 8, did & 0xFF])
            else:
                p = bytes([service, did >> 8, did & 0xFF])
            exp_pdus.append(p + (payload or b""))
            o = outcomes[did - base]
            if o == POS:
                pos += 1
            elif o == TIMEOUT:
                timeouts += 1
            elif o in (OTHER, IMLOIF):
                abnormal += 1
    got_pdus = [p for _, p in ecu.requests]
    check(got_pdus == exp_pdus, "the identifiers probed (or their PDUs) differ from the requested range")
    for s, _ in ecu.requests:
        check(s == session, "probe sent outside the claimed session")
    check(("Positive replies: " + str(pos)) in log.results, lambda: "positive count differs: expected " + str(pos) + " got " + repr([r for r in log.results if r.startswith("Positive")]))
    check(("Timeouts: " + str(timeouts)) in log.results, "timeout count differs")
    check(("Abnormal replies: " + str(abnormal)) in log.results, "abnormal count differs")
    return done()
