"""C17 (partial) -- log records are read back exactly in any navigation mode."""
import os

INFO = {
    "level": "model_checking",
    "bounds": {
        "quick": "logs of k = 0..4 records on an in-memory mmap stand-in; priority of the prefixed records symbolic (3..5; for k >= 3 first and last record), prefix present/absent per record pattern; threshold symbolic 2..6; "
                 "hr modes forward / head n / tail n / reverse with n symbolic in 1..k+2; records(offset, reverse) for every offset in -k-2..k-1 (negative = from the end); last record with / without trailing newline; level/priority mapping over symbolic "
                 "indices; write -> read round trip through the real formatter and emit framing for symbolic (level, text index, tags, prefix) over 8 concrete texts",
        "thorough": "k up to 6",
    },
    "stubs": ["mmap -> in-memory line store (seek/tell/readline at line starts)", "hr: parse_args / PenlogReader / print patched to feed and capture records", "navigation obligations: JSON bodies of the six concrete lines parsed once at import (real parser: round-trip obligation)",
              "_ZstdFileHandler.file -> capturing stub"],
    "outside": ["zstd / gzip containers, real mmap, stdin/FIFO", "arbitrary message text: the text itself is not symbolic (newline-freeness / Unicode fidelity are properties of CPython's json)",
                "very long lines beyond 10 kB"],
    "assumptions": [],
}


def obligations(tier, scratch):
    quick = tier == "quick"
    path = os.path.join(scratch, "gen_c17.py")
    src = ["from checks.c17_lib import navigate, offsets, levels, roundtrip", ""]
    obs = []

    def add(name, code, meta, cap=900):
        src.append(code)
        obs.append({"name": name, "module_path": path, "function": name, "cap": cap, "opaque": False, "twin_cap": 120, "meta": meta})

    kmax = 4 if quick else 6
    for mode in ("forward", "head", "tail", "reverse"):
        for k in range(0, kmax + 1):
            if quick and mode == "head" and k == 4:
                continue  # islice over a symbolic count multiplies the paths: k <= 3 in the quick tier
            pats = ["p" * k] if k == 0 else (["p" * k, ("pn" * k)[:k]] if quick else ["p" * k, ("pn" * k)[:k], ("np" * k)[:k]])
            for pat in pats:
                name = f"hr_{mode}_k{k}_{pat or 'empty'}"
                symi = list(range(k)) if k <= 2 else [0, k - 1]
                pr = ", ".join(f"p{i}: int" for i in symi)
                pres = "\n".join(f"    pre: 3 <= p{i} <= 5" for i in symi)
                plist = ", ".join(f"p{i}" if i in symi else str(4 + (i % 3)) for i in range(k))
                add(name, f'''
def {name}({pr + ", " if k else ""}th: int, n: int, last_nl: bool) -> bool:
    """
{pres}
    pre: {'2 <= th <= 6' if k <= 2 or not quick else '3 <= th <= 5'}
    pre: 1 <= n <= {k + 2}{"" if (k <= 2 and mode in ("tail", "reverse")) or not quick else chr(10) + "    pre: last_nl"}
    post: _
    """
    return navigate({mode!r}, {k}, [{plist}], {[c == "p" for c in pat]!r}, th, n, last_nl)
''', {"mode": mode, "records": k, "prefix_pattern": pat, "symbolic": "record priorities, threshold, n"})
    for k in (1, 3) if quick else (1, 2, 3, 4):
        for rev in (False, True):
            name = f"offsets_k{k}_{'rev' if rev else 'fwd'}"
            pr = ", ".join(f"p{i}: int" for i in range(k))
            pres = "\n".join(f"    pre: 3 <= p{i} <= 5" for i in range(k))
            add(name, f'''
def {name}({pr}, th: int, off: int) -> bool:
    """
{pres}
    pre: 2 <= th <= 6
    pre: {-k - 2} <= off <= {k - 1}
    post: _
    """
    return offsets({k}, [{", ".join(f"p{i}" for i in range(k))}], {[True] * k!r}, th, off, {rev})
''', {"records": k, "reverse": rev, "symbolic": "record priorities, threshold, offset"})
    add("levels", '''
def levels_(li: int, prio: int) -> bool:
    """
    pre: 0 <= li <= 6
    pre: 0 <= prio <= 8
    post: _
    """
    return levels(li, prio)
''', {"mapping": "PenlogPriority.from_level / to_level"})
    obs[-1]["function"] = "levels_"
    add("roundtrip", '''
def roundtrip_(li: int, ti: int, tags: bool, prefix: bool) -> bool:
    """
    pre: 0 <= li <= 6
    pre: 0 <= ti <= 8
    post: _
    """
    return roundtrip(li, ti, tags, prefix)
''', {"write_read": "real _JSONFormatter.format + _ZstdFileHandler.emit framing -> parse_priority / parse_json", "texts": 9})
    obs[-1]["function"] = "roundtrip_"
    with open(path, "w") as f:
        f.write("\n".join(src))
    return obs
