"""Harness for C11: (i) ECU._request logs every exchange exactly once with the state before the request; (ii) the real
DBHandler.insert_scan_result builds a byte-exact row for every typed response; (iii) the real writer task / disconnect on the
virtual-time loop never loses or duplicates an accepted row."""
import asyncio

from engine.hlib import check, done, drive, reraise
from engine.vloop import VLoop, VTime
import gallia.command  # noqa: F401  (import order: avoids the circular import gallia.db.handler <-> gallia.command.base)
from gallia.db import handler as H
from gallia.db.log import LogMode
from gallia.services.uds import ecu as E
from gallia.services.uds.core import service as S
from gallia.services.uds.core.client import UDSClient, UDSRequestConfig
from gallia.services.uds.core.exception import MalformedResponse, MissingResponse, RequestResponseMismatch

POS, NEG, MISMATCH, MALFORMED, MISSING, CONNERR, CANCEL = range(7)


class Stamp:
    def __init__(self, n):
        self.n = n

    def astimezone(self):
        return self

    def timestamp(self):
        return float(self.n)

    def tzname(self):
        return "UTC"


class FakeDatetime:
    counter = 0

    @classmethod
    def now(cls, tz=None):
        cls.counter += 1
        return Stamp(cls.counter)


class RecDB:
    def __init__(self, fail=False):
        self.rows = []
        self.fail = fail

    async def insert_scan_result(self, state, request, response, exception, send_time, receive_time, mode):
        self.rows.append((dict(state), request, response, exception, send_time, receive_time, mode))
        if self.fail:
            raise RuntimeError("database trouble")


class NullTransport:
    pass


def ecu_request(kind, implicit, analyze, has_cfg, session, level, new_session, db_fails):
    """one ECU._request whose underlying client exchange ends as `kind`"""
    request = S.DiagnosticSessionControlRequest(new_session)
    good = S.DiagnosticSessionControlResponse(new_session)
    good.trigger_request = request
    neg = S.NegativeResponse(0x10, E.service.UDSErrorCodes.conditionsNotCorrect)
    neg.trigger_request = request
    foreign = S.DiagnosticSessionControlResponse((new_session % 0x7F) + 1)

    async def fake_client_request(self, req, config=None):
        if kind == POS:
            return good
        if kind == NEG:
            return neg
        if kind == MISMATCH:
            raise RequestResponseMismatch(req, foreign)
        if kind == MALFORMED:
            raise MalformedResponse(req, S.RawPositiveResponse(bytes([0x50])))
        if kind == MISSING:
            raise MissingResponse(req)
        if kind == CONNERR:
            raise ConnectionResetError("scripted")
        raise asyncio.CancelledError()

    ecu = E.ECU(NullTransport(), timeout=1.0)
    ecu.state.session = session
    ecu.state.security_access_level = None if level == 0 else level
    db = RecDB(db_fails)
    ecu.db_handler = db
    ecu.implicit_logging = implicit
    cfg = UDSRequestConfig(tags=["ANALYZE"] if analyze else ["other"]) if has_cfg else None
    saved = (UDSClient._request, E.datetime)
    UDSClient._request = fake_client_request
    E.datetime = FakeDatetime
    before = (session, None if level == 0 else level)
    try:
        try:
            r = drive(ecu._request(request, cfg))
            out = ("ok", r)
        except asyncio.CancelledError:
            out = ("cancelled", None)
        except Exception as e:  # noqa: BLE001
            out = ("exc", e)
    finally:
        UDSClient._request, E.datetime = saved
    # ---- oracle ----
    if not implicit:
        check(len(db.rows) == 0, "a row was recorded although implicit logging is switched off")
    else:
        check(len(db.rows) == 1, lambda: "expected exactly one scan_result row, got " + str(len(db.rows)))
        state, req, resp, exc, t_send, t_recv, mode = db.rows[0]
        check(req.pdu == request.pdu, "request bytes in the row differ from what was put on the wire")
        check((state["session"], state["security_access_level"]) == before, "row does not hold the client's view of the ECU state BEFORE the request")
        check(mode == (LogMode.emphasized if (has_cfg and analyze) else LogMode.implicit), "row not marked implicit / emphasized as requested")
        if kind == POS:
            check(resp is good and exc is None, "positive reply not recorded")
        elif kind == NEG:
            check(resp is neg and exc is None, "negative reply not recorded")
        elif kind == MISMATCH:
            check(resp is foreign and isinstance(exc, RequestResponseMismatch), "mismatching reply / exception not recorded")
        elif kind == MALFORMED:
            check(resp is not None and resp.pdu == bytes([0x50]) and isinstance(exc, MalformedResponse), "malformed reply / exception not recorded")
        elif kind == MISSING:
            check(resp is None and isinstance(exc, MissingResponse), "timeout not recorded with NULL reply")
        elif kind == CONNERR:
            check(resp is None and isinstance(exc, ConnectionError), "connection error not recorded with NULL reply")
        if t_recv is not None:
            check(t_send.n <= t_recv.n, "send time after receive time")
        if kind in (POS, NEG):
            check(t_recv is not None, "receive time missing for a received reply")
    # the caller's outcome is not altered by logging (also when the database fails)
    if kind in (POS, NEG):
        check(out[0] == "ok" and out[1] is (good if kind == POS else neg), "logging altered the result of the request")
    elif kind == CANCEL:
        check(out[0] == "cancelled", "cancellation swallowed")
    else:
        check(out[0] == "exc", "exception swallowed")
    # state update after logging, driven by positive replies only
    if kind == POS:
        check(ecu.state.session == new_session, "state not updated after a positive session change")
    elif kind in (NEG, MISSING, CONNERR, MALFORMED, CANCEL):
        check(ecu.state.session == session, "state changed without a positive reply")
    return done()


class HexStub:
    def __init__(self, data, max_length):
        self.data = bytes(data) if not isinstance(data, bytes) else data
        self.truncated = max_length is not None and 2 * len(data) > max_length


class JsonStub:
    def __init__(self, obj):
        self.obj = obj


def structural_dumps(obj, *a, **k):
    """json.dumps that decides serialisability structurally (by types, as JSON does) without rendering values"""
    def walk(o):
        if o is None or isinstance(o, (str, int, float, bool, HexStub)):
            return
        if isinstance(o, dict):
            for kk, v in o.items():
                if not (kk is None or isinstance(kk, (str, int, float, bool))):
                    raise TypeError("keys must be str, int, float, bool or None")
                walk(v)
            return
        if isinstance(o, (list, tuple)):
            for v in o:
                walk(v)
            return
        raise TypeError("Object of type " + type(o).__name__ + " is not JSON serializable")

    walk(obj)
    return JsonStub(obj)


class QueueOnly:
    def __init__(self):
        self.items = []

    async def put(self, item):
        self.items.append(item)


def row_for(request_bytes, response_bytes, session, level):
    """(ii) the real insert_scan_result for the typed objects the codec returns for these bytes"""
    request = S.UDSRequest.parse_dynamic(request_bytes)
    try:
        response = S.UDSResponse.parse_dynamic(response_bytes)
    except Exception:  # noqa: BLE001
        return done()  # rejected replies never reach the database as typed objects
    h = object.__new__(H.DBHandler)
    h.connection = object()
    h._execute_queue = QueueOnly()
    h.scan_run = 7
    saved = (H.bytes_repr_, H.json)

    class J:
        dumps = staticmethod(structural_dumps)

    H.bytes_repr_ = lambda data, prefix=False, max_length=20: HexStub(data, max_length)
    H.json = J
    try:
        drive(h.insert_scan_result({"session": session, "security_access_level": level}, request, response, None, Stamp(1), Stamp(2), LogMode.implicit))
    except TypeError:
        check(False, "the row for a typed response cannot be encoded as JSON (it would be dropped with a warning)")
    finally:
        H.bytes_repr_, H.json = saved
    check(len(h._execute_queue.items) == 1, "no row queued")
    query, p = h._execute_queue.items[0]
    check(isinstance(p[2], HexStub) and p[2].data == request_bytes and not p[2].truncated, "request_pdu is not the hex of the exact request bytes")
    check(isinstance(p[6], HexStub) and p[6].data == response_bytes and not p[6].truncated, "response_pdu is not the hex of the exact reply bytes")
    check(p[0] == 7 and p[11] == "implicit", "run / log mode column")
    check(p[3] <= p[7], "send time after receive time")
    return done()


class OperationalError(Exception):
    pass


class StubConnection:
    def __init__(self, loop, fail_index, latency_us):
        self.loop, self.fail_index, self.latency_us = loop, fail_index, latency_us
        self.executed = []
        self.attempts = 0
        self.closed_at = None
        self.commits = 0

    async def execute(self, query, params=None):
        check(self.closed_at is None, "execute after close")
        k = self.attempts
        self.attempts += 1
        await asyncio.sleep(VTime(self.latency_us))
        if k == self.fail_index:
            raise H.aiosqlite.OperationalError("database is locked")
        self.executed.append(params)

    async def commit(self):
        self.commits += 1

    async def close(self):
        self.closed_at = self.loop.now.us


def writer(t1, t2, t3, tdisc, fail_index, latency_us):
    """(iii) three producers put rows at symbolic instants, disconnect() starts at a symbolic instant; one execute may fail
    with OperationalError (transient lock)"""
    loop = VLoop()
    box = {"accepted": []}

    async def main():
        h = object.__new__(H.DBHandler)
        conn = StubConnection(loop, fail_index, latency_us)
        h.connection = conn
        h._execute_queue = asyncio.Queue()
        h._executor_task = asyncio.create_task(h._executor_func())
        box["conn"] = conn

        async def producer(t, row):
            await asyncio.sleep(VTime(t))
            if h._execute_queue is None:
                return  # handler already closing: the row is not accepted
            await h._execute_queue.put(("INSERT", row))
            box["accepted"].append((row, loop.now.us))

        ps = [loop.create_task(producer(t, (0, 0, 0, 0, 0, "row%d" % i))) for i, t in enumerate((t1, t2, t3))]
        await asyncio.sleep(VTime(tdisc))
        await h.disconnect()
        box["disc_done"] = loop.now.us
        for p in ps:
            await p

    task = loop.run(main(), max_steps=60000)
    check(task.done(), "disconnect() blocks forever")
    reraise(task)
    conn = box["conn"]
    check(conn.closed_at is not None, "connection not closed")
    for row, at in box["accepted"]:
        n = sum(1 for r in conn.executed if r is row)
        if at < tdisc:  # rows handed over strictly before disconnect() was called; later ones race with it (unconstrained)
            check(n == 1, lambda: "a row accepted before disconnect() was written " + str(n) + " times")
        else:
            check(n <= 1, "a row was written twice")
    if fail_index < 0 or fail_index >= conn.attempts:
        acc = [r for r, _ in box["accepted"]]
        check([r for r in conn.executed] == acc[: len(conn.executed)], "rows written in another order than they were accepted")
    return done()
