"""Harness for C07: the real HSFZConnection / HSFZTransport on the virtual-time loop against a scripted gateway."""
import asyncio
import struct

from engine.hlib import check, done, reraise, untraced
from engine.vloop import Peer, VLoop, VTime, make_streams
from gallia.transports import TargetURI
from gallia.transports.hsfz import HSFZConfig, HSFZConnection, HSFZTransport

SRC, DST = 0xF4, 0x10
URI = TargetURI("hsfz://127.0.0.1:6801?src_addr=0xf4&dst_addr=0x10")
CFG = HSFZConfig(src_addr="0xf4", dst_addr="0x10")
REQ = bytes([0x22, 0xF1, 0x90, 0x01, 0x02, 0x03])  # longer than 5 bytes: the ack echoes the first five only


def frame(cword, src=None, dst=None, data=b""):
    if src is None:
        return struct.pack("!IH", len(data), cword) + data
    return struct.pack("!IH", len(data) + 2, cword) + bytes([src, dst]) + data


def F(kind, payload=b"\x62\xf1\x90\xaa"):
    """gateway alphabet"""
    if kind == "ack":
        return frame(0x02, SRC, DST, REQ[:5])
    if kind == "ack_wrong_echo":
        return frame(0x02, SRC, DST, b"\x22\xf1\x91\x01\x02")
    if kind == "ack_wrong_addr":
        return frame(0x02, 0xF5, DST, REQ[:5])
    if kind == "ack_short_echo":
        return frame(0x02, SRC, DST, REQ[:3])
    if kind == "ack_empty_echo":
        return frame(0x02, SRC, DST, b"")
    if kind == "ack_full_echo":
        return frame(0x02, SRC, DST, REQ)
    if kind == "data":
        return frame(0x01, DST, SRC, payload)
    if kind == "data2":
        return frame(0x01, DST, SRC, b"\x62\xf1\x90\xbb\xcc")
    if kind == "foreign":
        return frame(0x01, 0x11, SRC, b"\x62\xf1\x90\xee")
    if kind == "foreign_dst":
        return frame(0x01, DST, 0xF5, b"\x62\xf1\x90\xef")
    if kind == "alive":
        return frame(0x12, 0x00, 0x00)
    if kind == "short0":
        return frame(0x01)
    if kind == "short1":
        return frame(0x02, data=b"\x00")
    if kind == "status":
        return frame(0x13, SRC, DST, b"\x00")
    if kind == "error":
        return frame(0x40, SRC, DST)
    if kind == "klemme15":
        return frame(0x10, 0x00, 0x00)
    raise KeyError(kind)


ALIVE_REPLY = struct.pack("!IH", 2, 0x12) + struct.pack("!H", SRC)
IS_DATA = ("data", "data2")
ERRORS = ("error", "status", "klemme15")  # other control words are queued as int: surface as connection error and close


def run_coalesced(script, t0, cut, gap, ack_timeout_ms, read_timeout_us, reads):
    """the whole gateway stream arrives as ONE segment at t0, or as two segments cut at byte offset `cut` (tail `gap` later)"""
    return run(script, None, -1, 0, 0, ack_timeout_ms, read_timeout_us, reads, stream=(t0, cut, gap))


def run(script, times, split_idx, split_off, gap, ack_timeout_ms, read_timeout_us, reads, stream=None):
    """client: write(REQ) at time 0, then `reads` reads with the given timeout.  Gateway: frames of `script` in stream order,
    frame i delivered at times[i] (non-decreasing); frame split_idx is cut at split_off and its tail delivered `gap` later."""
    n = len(script)
    t0 = cut = sgap = 0
    blob = b""
    if stream is not None:
        t0, cut, sgap = stream
        blob = b"".join(F(k) for k in script)
        if not (0 <= cut <= len(blob)):
            return True
        times = []
        pos = 0
        for k in script:
            pos += len(F(k))
            times.append(t0 if pos <= cut or cut == 0 and False else t0 + sgap)
        if cut == 0 or cut == len(blob):
            times = [t0 + (sgap if cut == 0 else 0)] * n
        gap = 0
    if 0 <= split_idx < n - 1 and not (times[split_idx] + gap <= times[split_idx + 1]):
        return True  # one TCP stream: the tail of the cut frame precedes the next frame (assume)
    loop = VLoop()
    res = {"reads": []}
    box = {}

    async def main():
        reader, writer, tr, proto = make_streams(loop)
        box["tr"] = tr
        conn = HSFZConnection(reader, writer, SRC, DST, VTime(ack_timeout_ms * 1000))
        t = HSFZTransport(URI, 6801, CFG, conn)
        box["conn"] = conn
        peer = Peer(loop, reader, proto)
        if stream is not None:
            if cut == 0 or cut == len(blob):
                peer.feed_at(VTime(times[0]) if n else VTime(t0), blob)
            else:
                peer.feed_at(VTime(t0), blob[:cut])
                peer.feed_at(VTime(t0 + sgap), blob[cut:])
        for i, kind in enumerate(script if stream is None else []):
            b = F(kind)
            if i == split_idx and 0 < split_off < len(b):
                peer.feed_at(VTime(times[i]), b[:split_off])
                peer.feed_at(VTime(times[i] + gap), b[split_off:])
            else:
                peer.feed_at(VTime(times[i] + (gap if i == split_idx else 0)), b)
        try:
            await t.write(REQ)
            res["write"] = ("ok", loop.now.us)
        except ConnectionError as e:
            res["write"] = ("connerr", loop.now.us)
            return
        for _ in range(reads):
            try:
                d = await t.read(timeout=VTime(read_timeout_us))
                res["reads"].append(("data", d, loop.now.us))
            except TimeoutError:
                res["reads"].append(("timeout", None, loop.now.us))
            except (ConnectionError, OSError):
                res["reads"].append(("connerr", None, loop.now.us))
                return

    task = loop.run(main(), max_steps=60000)
    check(task.done(), "client blocks forever")
    reraise(task)
    # ---- reference ----
    comp = [times[i] + (gap if i == split_idx else 0) for i in range(n)]
    # stream order must be consistent with delivery order (one TCP stream)
    ack_to = ack_timeout_ms * 1000
    ack_at = None
    err_at = None
    for i, kind in enumerate(script):
        if kind == "ack" and ack_at is None:
            ack_at = comp[i]
        if kind in ERRORS and err_at is None and ack_at is None:
            err_at = comp[i]
    wk, wt = res["write"]
    if err_at is not None and err_at < ack_to:
        check(wk == "connerr", "error control word while waiting for the ack did not surface as a connection error")
        check(box["conn"]._closed, "connection not closed after an error control word")
    elif ack_at is not None and ack_at < ack_to:
        check(wk == "ok", "write failed although the gateway acknowledged in time")
        check(wt == ack_at, "write did not complete when the ack arrived")
    elif ack_at is None or ack_at > ack_to:
        check(wk == "connerr", "write completed without a matching ack")
        check(wt == ack_to, "missing ack did not surface at the ack timeout")
        check(box["conn"]._closed, "connection not closed after the ack timeout")
    # alive checks are answered immediately with the tester address (as long as the connection is open)
    written = box["tr"].written
    close_at = box["tr"].closed_at
    for i, kind in enumerate(script):
        if kind == "alive" and (close_at is None or comp[i] < close_at):
            hits = [t for (t, d) in written if d == ALIVE_REPLY and t == comp[i]]
            check(len(hits) >= 1, "alive check not answered immediately with the tester address")
    check(written[0][1] == frame(0x01, SRC, DST, REQ), "request frame on the wire differs")
    # reads: payloads of the data frames addressed ECU -> tester, in stream order; skipped frames stay available
    if wk == "ok":
        exp = [(F(k)[8:], comp[i]) for i, k in enumerate(script) if k in IS_DATA]
        # an error control word after the ack ends the stream of readable data at that point
        t_now = wt
        k = 0  # next undelivered data frame
        errs = [comp[i] for i, kd in enumerate(script) if kd in ERRORS and (ack_at is not None and comp[i] >= ack_at)]
        for j in range(reads):
            if j >= len(res["reads"]):
                break
            rk, rd, rt = res["reads"][j]
            deadline = t_now + read_timeout_us
            if k < len(exp):
                payload, at = exp[k]
                ready = at if at > t_now else t_now
                if errs and errs[0] <= ready:
                    pass  # an error control word precedes the data: connection error or data, unconstrained
                elif ready < deadline:
                    check(rk == "data", "read did not deliver a data frame that arrived before its deadline")
                    check(rd == payload, "read delivered other bytes than the next data frame of the ECU (order/content)")
                    check(rt == ready, "read did not complete when the frame was available")
                elif ready > deadline:
                    check(rk == "timeout", "read returned after its deadline")
                if rk == "data":
                    k += 1
            elif not errs:
                check(rk == "timeout", "read delivered a frame that is not a data frame from the ECU to the tester")
            t_now = rt
    return done()


def codec(b):
    """HSFZHeader / HSFZDiagReqHeader pack and unpack are inverse and big-endian"""
    from gallia.transports.hsfz import HSFZDiagReqHeader, HSFZHeader

    h = HSFZHeader.unpack(b[:6])
    check(h.Len == ((b[0] * 256 + b[1]) * 256 + b[2]) * 256 + b[3], "Len is not the big-endian value of bytes 0..3")
    check(h.CWord == b[4] * 256 + b[5], "CWord is not the big-endian value of bytes 4..5")
    check(h.pack() == b[:6], "header does not re-serialise")
    r = HSFZDiagReqHeader.unpack(b[6:8])
    check(r.src_addr == b[6] and r.dst_addr == b[7], "address header fields swapped")
    check(r.pack() == b[6:8], "address header does not re-serialise")
    return done()


def via_connect(uri, ato_ms, t_ack):
    """The transport is created by the real HSFZTransport.connect(<URI>) (asyncio.open_connection patched): the ack timeout the
    user configured (milliseconds in the URI, default 1000) is the one the connection applies."""
    loop = VLoop()
    box = {}
    saved = asyncio.open_connection

    async def fake_open(host, port, **kw):
        reader, writer, tr, proto = make_streams(loop)
        box.update(tr=tr, peer=Peer(loop, reader, proto), host=host, port=port)
        return reader, writer

    async def main():
        asyncio.open_connection = fake_open
        try:
            with untraced():
                t = await HSFZTransport.connect(TargetURI(uri))
        finally:
            asyncio.open_connection = saved
        box["peer"].feed_at(VTime(t_ack), F("ack"))
        try:
            await t.write(REQ)
            return ("ok", loop.now.us)
        except ConnectionError:
            return ("connerr", loop.now.us)

    task = loop.run(main(), max_steps=40000)
    asyncio.open_connection = saved
    check(task.done(), "write blocks forever")
    reraise(task)
    kind, when = task.result()
    ato = ato_ms * 1000
    if t_ack < ato:
        check(kind == "ok" and when == t_ack, "write failed although the ack arrived within the configured ack timeout")
    elif t_ack > ato:
        check(kind == "connerr" and when == ato, "missing ack did not surface at the configured ack timeout")
    return done()
