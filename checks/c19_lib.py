"""Harness bodies for C19: the real tcp-lines / unix-lines transports and the virtual ECU's server loop on the
virtual-time loop with fake streams."""
import asyncio

from engine.hlib import check, done, reraise
from engine.vloop import Peer, VLoop, VTime, make_streams
from gallia.services.uds import server as SV
from gallia.transports import TargetURI
from gallia.transports.tcp import TCPLinesTransport
from gallia.transports.unix import UnixLinesTransport

URI = {"tcp": TargetURI("tcp-lines://127.0.0.1:20162"), "unix": TargetURI("unix-lines:///tmp/x.sock")}
CLS = {"tcp": TCPLinesTransport, "unix": UnixLinesTransport}


def make(kind, loop):
    reader, writer, tr, proto = make_streams(loop)
    t = CLS[kind](URI[kind], reader, writer)
    return t, reader, tr, proto


def wire_bytes(kind, msgs):
    """what the real write() puts on the wire for a sequence of messages"""
    loop = VLoop()
    out = {}

    async def main():
        t, _, tr, _ = make(kind, loop)
        for m in msgs:
            n = await t.write(m)
            check(n == len(m), "write() reports a wrong length")
        out["wire"] = tr.all_written()

    task = loop.run(main())
    check(task.done() and task.exception() is None, "write did not complete")
    return out["wire"]


def split_read(kind, m1, m2, cut, t1, t2, timeout_us, has_timeout):
    """Two messages written by the real sender; the byte stream is cut at `cut` and delivered at t1 <= t2.
    Receiver: read(timeout) at time 0, then reads without timeout."""
    msgs = [m1, m2]
    wire = wire_bytes(kind, msgs)
    if not (0 <= cut <= len(wire)):
        return True
    loop = VLoop()
    res = []

    async def main():
        t, reader, tr, proto = make(kind, loop)
        peer = Peer(loop, reader, proto)
        peer.feed_at(VTime(t1), wire[:cut])
        peer.feed_at(VTime(t2), wire[cut:])
        first_to = VTime(timeout_us) if has_timeout else None
        timed_out = False
        try:
            r = await t.read(timeout=first_to)
            res.append(r)
        except TimeoutError:
            timed_out = True
            res.append(None)
            # a read that timed out consumed nothing: the next read returns the complete next message
            res[0] = ("timeout", loop.now.us)
            res.append(await t.read())
        res.append(await t.read())
        return timed_out

    task = loop.run(main())
    check(task.done(), "read blocks forever although both messages were delivered")
    reraise(task)
    timed_out = task.result()
    # when is the first line complete?
    line1 = 2 * len(m1) + 1
    done_at = t1 if cut >= line1 else t2
    if has_timeout:
        if done_at < timeout_us:
            check(not timed_out, "read timed out although the complete line arrived before the deadline")
        if done_at > timeout_us:
            check(timed_out, "read returned after its deadline")
    else:
        check(not timed_out, "timeout without a deadline")
    got = res[1:] if timed_out else res
    check(len(got) == 2 and got[0] == m1 and got[1] == m2, "messages not delivered intact, in order, one per read")
    return done()


def eof_read(kind, msg, cut):
    """the peer sends the first `cut` bytes of one line, then EOF: never a fabricated (truncated) message"""
    wire = wire_bytes(kind, [msg])
    if not (0 <= cut <= len(wire)):
        return True
    loop = VLoop()

    async def main():
        t, reader, tr, proto = make(kind, loop)
        peer = Peer(loop, reader, proto)
        peer.feed_at(VTime(1000), wire[:cut])
        peer.eof_at(VTime(2000))
        try:
            return ("data", await t.read(timeout=5.0))
        except TimeoutError:
            return ("timeout", None)
        except Exception as e:  # noqa: BLE001
            return ("error", type(e).__name__)

    task = loop.run(main())
    check(task.done(), "read blocks forever after EOF")
    kind_, val = task.result()
    if kind_ == "data":
        if cut == len(wire):
            check(val == msg, "complete line before EOF not delivered")
        else:
            check(val == b"" or val == msg and cut == len(wire) - 1, "EOF inside a line delivered a fabricated/truncated message")
    return done()


class EchoServer(SV.UDSServer):
    @property
    def supported_services(self):
        return {}

    async def respond_after_default(self, request):
        return None


class EchoTransport(SV.TCPUDSServerTransport):
    """the real handle_client loop; handle_request answers with the request bytes reversed (silence for 0xff first byte)"""

    def __init__(self):
        self.server = None
        self.target = URI["tcp"]
        self.last_time_active = 0
        self.seen = []

    async def handle_request(self, request_pdu):
        self.seen.append(request_pdu)
        if request_pdu[0] == 0xFF:
            return None, 0.0
        return bytes(reversed(request_pdu)), 0.0


def server_loop(m1, m2, cut, t1, t2):
    """two request lines, coalesced or split anywhere, then EOF: one reply line per request, in order"""
    wire = wire_bytes("tcp", [m1, m2])
    if not (0 <= cut <= len(wire)):
        return True
    loop = VLoop()
    st = EchoTransport()
    box = {}

    async def main():
        reader, writer, tr, proto = make_streams(loop)
        box["tr"] = tr
        peer = Peer(loop, reader, proto)
        peer.feed_at(VTime(t1), wire[:cut])
        peer.feed_at(VTime(t2), wire[cut:])
        peer.eof_at(VTime(t2 + 1000))
        await st.handle_client(reader, writer)

    task = loop.run(main())
    check(task.done(), "server loop does not terminate after EOF")
    reraise(task)
    check(st.seen == [m1, m2], "server loop did not see exactly the two requests, in order")
    exp = b""
    for m in (m1, m2):
        if m[0] != 0xFF:
            exp += wire_bytes("tcp", [bytes(reversed(m))])
    check(box["tr"].all_written() == exp, "server loop did not write exactly one reply line per request")
    return done()
