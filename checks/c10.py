"""C10 -- service and identifier scans report what the ECU really supports."""
import os

INFO = {
    "level": "model_checking",
    "bounds": {
        "quick": "services: one probed id per obligation (0x00, 0x10, 0x3f, 0x40, 0x7f, 0xbf, 0xff) whose four probe outcomes, 'implemented' flag, not-supported code and skip flag are "
                 "symbolic; two further ids answer concretely; every other id is excluded through the real skip option; sessions None / [1,2] with symbolic 'session change succeeds'; "
                 "scan_response_ids symbolic; the full 0x00-0xFF loop against a concrete ECU. Identifiers: window of 4 ids at bases 0, 0x7c, 0xfffc; start/end symbolic in the window, one id (first / last) with symbolic "
                 "outcome (8 kinds) and skip flag, the others positive; services 0x22, 0x27, 0x2e, 0x31; with and without payload",
        "thorough": "every service id without bit 0x40 as probed id",
    },
    "stubs": ["ECU = stub using the real response/exception classes", "scanner config = plain namespace (pydantic bypassed), skip map = O(1) container", "module logger -> recording stub (result records)",
              "check_session off", "logger.* stripped except result"],
    "outside": ["--reset, check-session recovery", "skip maps parsed from text (C20)", "identifier windows elsewhere in 0..0xFFFF"],
    "assumptions": ["an ECU that does not implement a service answers serviceNotSupported(InActiveSession) to every probe length"],
}


def obligations(tier, scratch):
    quick = tier == "quick"
    path = os.path.join(scratch, "gen_c10.py")
    src = ["from checks.c10_lib import services_scan, full_range, identifier_scan", ""]
    obs = []

    def add(name, code, meta, cap=900):
        src.append(code)
        obs.append({"name": name, "module_path": path, "function": name, "cap": cap, "opaque": True, "twin_cap": 120, "meta": meta})

    ids = [0x00, 0x10, 0x3F, 0x40, 0x7F, 0xBF, 0xFF] if quick else [i for i in range(256) if not i & 0x40] + [0x40, 0x50, 0x7F, 0xFF]
    for sid in ids:
        for mode in ("nosess", "sess"):
            for rid in (False, True):
                for skip in (False, True):
                    if mode == "sess" and (sid not in (0x10, 0x40) or skip or (quick and (sid != 0x10 or rid))):
                        continue
                    if skip and quick and sid not in (0x10, 0x40, 0xFF):
                        continue
                    name = f"svc_{sid:02x}_{mode}_rid{int(rid)}_skip{int(skip)}"
                    sessions = "None" if mode == "nosess" else "[1, 2]"
                    sok = "{}" if mode == "nosess" else "{1: ok1, 2: ok2}"
                    ocpre = "0 <= oc <= 3" if mode == "nosess" and (sid == 0x10 or not quick) else "oc == 0"
                    add(name, f'''
def {name}(impl: bool, uc: int, o0: int, o1: int, o2: int, o3: int, ok1: bool, ok2: bool, oc: int) -> bool:
    """
    pre: 0 <= uc <= 1
    pre: {ocpre}
    pre: 2 <= o0 <= 6 and 2 <= o1 <= 6 and 2 <= o2 <= 6 and 2 <= o3 <= 6
    post: _
    """
    return services_scan({sid}, impl, uc, [o0, o1, o2, o3], {{0x22: 4, 0x11: 0}}, {sessions}, {sok}, {rid}, {skip}, oc)
''', {"probed_service_id": hex(sid), "sessions": mode, "scan_response_ids": rid, "probed_id_in_skip_list": skip,
       "symbolic": "implemented, not-supported code, 4 probe outcomes, session change ok"})
    for rid in (False, True):
        name = f"full_range_rid{int(rid)}"
        add(name, f'''
def {name}(dummy: bool) -> bool:
    """
    post: _
    """
    return full_range({rid}, (0x10, 0x22, 0x3E, 0x50, 0x7E, 0xBA))
''', {"loop": "0x00-0xFF", "scan_response_ids": rid, "ecu": "concrete"})
    for service in (0x22, 0x27, 0x2E, 0x31):
        bases = (0x7C,) if service == 0x27 else ((0, 0xFFFC) if quick else (0, 0x7C, 0xFFFC))
        for base in bases:
            for pl in ("None",) if service != 0x2E or quick else ("None", "b'\\x01'"):
                name = f"ids_{service:02x}_b{base:x}" + ("" if pl == "None" else "_pl")
                for j in (0, 3) if quick else (0, 1, 2, 3):
                    add(name + f"_j{j}", f'''
def {name}_j{j}(a: int, b: int, oj: int, kj: bool) -> bool:
    """
    pre: 0 <= a <= 3 and 0 <= b <= 3
    pre: 0 <= oj <= 8 and oj != 2
    post: _
    """
    return identifier_scan({service}, {base}, a, b, {j}, oj, kj, {pl})
''', {"service": hex(service), "window_base": hex(base), "window": 4, "special_id": j, "symbolic": "start, end, outcome (8 kinds) and skip flag of the special id"}, cap=1500)
    with open(path, "w") as f:
        f.write("\n".join(src))
    return obs
