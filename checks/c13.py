"""C13 -- the virtual ECU answers by the ISO 14229-1 default response rules."""
import os

INFO = {
    "level": "model_checking",
    "bounds": {
        "quick": "one step from a valid state (active session 2 without security level; 1 with level 3 for five services): two-session model whose facts about the service under test (present in active/other session, "
                 "supported sub-function values, session transitions) are symbolic, active session and security level symbolic, request = service id + 0..3 "
                 "symbolic bytes for every id of UDSIsoServices + 2 unknown ids, all switches on; single switch off for 7 ids x lengths 1..3; every RNG draw symbolic",
        "thorough": "lengths up to 5; every single switch off for all ids; all pairs of switches off for 4 ids",
    },
    "stubs": ["logger.* stripped", "time() = counter", "RNG / stateful_rng = nondeterministic stub drawing from explicit symbolic harness arguments",
              "pydantic Behavior/RandomnessParameters objects concrete", "opaque int formatting"],
    "outside": ["requests longer than the bound", "models with more than two sessions (rules quantify over 'active' vs 'some other' session only)",
                "which response a service handler picks", "inactivity reset (10 s)"],
    "assumptions": ["spec/iso_server_rules.py transcribes the statement", "model invariants (DSC sub-functions are sessions, session 1 enterable) as guaranteed by randomize() (discharged in C16)"],
}

TEMPLATE = '''
def {name}(tail: bytes, here: bool, there: bool, ha: bool, ho: bool, sfa: int, sfo: int, t12: bool, t22: bool,
           i0: int, i1: int, i2: int, i3: int, i4: int, i5: int, b0: bool, b1: bool, b2: bool) -> bool:
    """
    pre: len(tail) == {n}
    pre: 0 <= sfa <= 0x7E
    pre: 0 <= sfo <= 0x7E{extra}
    post: _
    """
    return step({sid}, tail, {off}, {cur}, {level}, here, there, ha, ho, sfa, sfo, t12, t22, [i0, i1, i2, i3, i4, i5], [b0, b1, b2])
'''


def obligations(tier, scratch):
    from checks.vecu_lib import SWITCHES
    from gallia.services.uds.core.constants import UDSIsoServices

    quick = tier == "quick"
    path = os.path.join(scratch, "gen_c13.py")
    src = ["from checks.c13_lib import step", ""]
    obs = []
    ids = sorted(int(s) for s in UDSIsoServices if int(s) != 0x7F) + [0xBA, 0x00]
    lens = (1, 2, 3, 4) if quick else (1, 2, 3, 4, 5, 6)

    # services with one request class per sub-function: the 15-way class dispatch multiplies with the model facts, so the
    # sub-function value (not the suppress bit) is fixed per obligation
    SF_SPLIT = {0x19: (0x01, 0x02, 0x06, 0x0A, 0x03) if quick else (0x01, 0x02, 0x06, 0x0A, 0x0B, 0x0F, 0x13, 0x15, 0x03, 0x7F),
                0x2C: (0x01, 0x02, 0x03, 0x04), 0x31: (0x01, 0x02, 0x03, 0x00)}

    def add(sid, n, off, tag, cur=2, level=None):
        variants = [(None, "")]
        if sid in SF_SPLIT and n >= 2:
            variants = [(k, f"_sf{k:02x}") for k in SF_SPLIT[sid]]
        for k, vt in variants:
            name = f"s_{sid:02x}_n{n}{vt}_{tag}_c{cur}" + ("" if level is None else f"_l{level}")
            extra = "" if k is None else f"\n    pre: tail[0] % 128 == {k}"
            src.append(TEMPLATE.format(name=name, n=n - 1, sid=sid, off=repr(tuple(off)), cur=cur, level=level, extra=extra))
            obs.append({"name": name, "module_path": path, "function": name, "cap": 400 if n < 5 else 1800, "opaque": True, "twin_cap": 60,
                        "meta": {"service_id": hex(sid), "request_len": n, "switches_off": list(off), "active_session": cur,
                                 "security_level": level, "sub_function_mod_0x80": k}})

    for sid in ids:
        for n in lens:
            add(sid, n, (), "all")
            if sid in (0x10, 0x11, 0x27, 0x22, 0x3E) or not quick:
                add(sid, n, (), "all", cur=1, level=3)
    sub_ids = [0x10, 0x27, 0x3E, 0x22, 0x31, 0x85, 0xBA] if quick else ids
    for sid in sub_ids:
        for n in (1, 2, 3) if quick else (1, 2, 3, 4):
            for i, sw in enumerate(SWITCHES):
                add(sid, n, (sw,), f"off{i}")
    if not quick:
        import itertools

        for sid in (0x10, 0x27, 0x3E, 0x22):
            for a, b in itertools.combinations(range(len(SWITCHES)), 2):
                for n in (2, 3):
                    add(sid, n, (SWITCHES[a], SWITCHES[b]), f"off{a}_{b}")
    src[0] = "from checks.c13_lib import step, seed_key"
    src.append('''
def seed_key_sequence(right_key: bool, key_tail: bytes, pre_request: bool, spr: bool, i0: int, i1: int, i2: int, i3: int, b0: bool) -> bool:
    """
    pre: len(key_tail) == 1
    post: _
    """
    return seed_key(right_key, key_tail, pre_request, spr, [i0, i1, i2, i3], [b0])
''')
    obs.append({"name": "seed_key_sequence", "module_path": path, "function": "seed_key_sequence", "cap": 600, "opaque": True, "twin_cap": 60,
                "meta": {"history": "requestSeed (optional) then sendKey", "symbolic": "seed bytes (RNG draws), key right / wrong (+1 byte), suppress bit"}})
    with open(path, "w") as f:
        f.write("\n".join(src))
    return obs
