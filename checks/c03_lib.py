"""Harness body for C03."""
from engine.hlib import check, done
from gallia.services.uds.core import service as S
from gallia.services.uds.core.exception import MalformedResponse, RequestResponseMismatch, UnexpectedNegativeResponse
from gallia.services.uds.core.constants import UDSErrorCodes
from gallia.services.uds.helpers import parse_pdu, raise_for_error
from spec import matching as M


def body(q: bytes, p: bytes) -> bool:
    request = S.RawRequest(q)
    try:
        r = parse_pdu(p, request)
        out = M.ACCEPT
    except RequestResponseMismatch:
        out = M.MISMATCH
        r = None
    except MalformedResponse:
        out = M.MALFORMED
        r = None
    exp = M.expected(q, p)
    check(out in exp, "outcome " + out + " but the statement requires one of " + "/".join(sorted(exp)))
    if r is not None:
        check(r.trigger_request is request, "accepted response not bound to the outstanding request")
        check(r.pdu == p, "accepted response does not carry the received bytes")
        if p[0] == 0x7F:
            check(isinstance(r, S.NegativeResponse), "genuine negative response not exposed as NegativeResponse")
            check(r.response_code == p[2] and r.request_service_id == q[0], "negative response fields differ")
    return done()


def typed_body(make, p: bytes) -> bool:
    """Same with a typed request object (the user-facing API)."""
    request = make()
    return _typed(request, p)


def _typed(request, p):
    q = request.pdu
    try:
        r = parse_pdu(p, request)
        out = M.ACCEPT
    except RequestResponseMismatch:
        out = M.MISMATCH
        r = None
    except MalformedResponse:
        out = M.MALFORMED
        r = None
    exp = M.expected(q, p)
    check(out in exp, "outcome " + out + " but the statement requires one of " + "/".join(sorted(exp)))
    if r is not None:
        check(r.trigger_request is request, "accepted response not bound to the outstanding request")
    return done()


def nrc_total(code: int, sid: int) -> bool:
    """Every defined response code maps to an exception class carrying that code."""
    c = UDSErrorCodes(code)
    req = S.RawRequest(bytes([sid, 0]))
    resp = S.NegativeResponse(sid, c)
    resp.trigger_request = req
    e = UnexpectedNegativeResponse.parse_dynamic(req, resp, None)
    check(isinstance(e, UnexpectedNegativeResponse), "not an UnexpectedNegativeResponse")
    check(e.RESPONSE_CODE == c, "exception class for another response code")
    check(e.response is resp and e.request is req, "exception does not carry request/response")
    try:
        raise_for_error(resp)
    except UnexpectedNegativeResponse as e2:
        check(type(e2) is type(e), "raise_for_error raises another class")
        return done()
    check(False, "raise_for_error did not raise for a negative response")
    return done()
