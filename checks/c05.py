"""C05 -- concurrent users of one UDS client never interleave their exchanges."""
import os

INFO = {
    "level": "model_checking",
    "bounds": {
        "quick": "2 callers (3 in one obligation) of the real UDSClient.request / ECU on the virtual-time loop; start instants and reply delays symbolic in [0, 2.5 s] "
                 "against a 1 s timeout (late replies after the timeout included); reply script of caller a in {ok, pending-then-final, silent, connection error with "
                 "max_retry=1 and symbolic reconnect time}; cancellation of one caller at a symbolic instant; the real ECU tester-present worker with symbolic interval "
                 "beside a slow / pending exchange",
        "thorough": "4 callers; two exchanges per caller",
    },
    "stubs": ["transport = timing-aware simulation (reply delivered `delay` after the request, to whoever reads then)", "virtual-time loop with symbolic instants",
              "database logging off", "logger.* stripped"],
    "outside": ["OS threads, other event loops", "more than 4 callers"],
    "assumptions": ["ties between instants are left to FIFO order"],
}

T2 = '''
def {name}(s1: int, d1: int, d1b: int, s2: int, d2: int, rc: int) -> bool:
    """
    pre: 0 <= s1 <= 2500000 and 0 <= s2 <= 2500000
    pre: 0 <= d1 <= 2500000 and 0 <= d2 <= 2500000
    pre: 0 <= d1b <= 2500000 and 0 <= rc <= 1000000
    post: _
    """
    return two_callers({kind!r}, s1, d1, d1b, s2, d2, {retry}, rc)
'''


def obligations(tier, scratch):
    quick = tier == "quick"
    path = os.path.join(scratch, "gen_c05.py")
    src = ["from checks.c05_lib import two_callers, cancel_one, three_callers, with_tester_present", ""]
    obs = []

    def add(name, code, meta, cap=900):
        src.append(code)
        obs.append({"name": name, "module_path": path, "function": name, "cap": cap, "opaque": True, "twin_cap": 120, "meta": meta})

    for kind, retry in (("ok", 0), ("pending", 0), ("silent", 0), ("silent", 1), ("connerr", 1), ("connerr", 0)):
        name = f"two_{kind}_retry{retry}"
        code = T2.format(name=name, kind=kind, retry=retry)
        fixed = ""
        if quick and kind == "pending":
            code = code.replace("    post: _", "    pre: s1 == 0 and d2 == 1000\n    post: _")
            fixed = "; caller a starts at 0, caller b answered after 1 ms"
        if quick and (kind, retry) == ("connerr", 1):
            code = code.replace("    post: _", "    pre: s1 == 0 and rc == 100000\n    post: _")
            fixed = "; caller a starts at 0, reconnect takes 0.1 s"
        add(name, code, {"callers": 2, "caller_a_script": kind, "max_retry": retry, "symbolic": "start instants, reply delays, reconnect time" + fixed})
    add("cancel_one", '''
def cancel_one_(s1: int, d1: int, s2: int, d2: int, c: int) -> bool:
    """
    pre: 0 <= s1 <= 2000000 and 0 <= s2 <= 2000000
    pre: 0 <= d1 <= 2500000 and 0 <= d2 <= 2500000
    pre: 0 <= c <= 4000000
    post: _
    """
    return cancel_one(s1, d1, s2, d2, c)
'''.replace("cancel_one_", "cancel_one_h"), {"callers": 2, "cancelled": "caller a at a symbolic instant"})
    obs[-1]["function"] = "cancel_one_h"
    add("three_ok", '''
def three_ok(s1: int, d1: int, s2: int, d2: int, s3: int, d3: int) -> bool:
    """
    pre: 0 <= s1 <= 1000000 and 0 <= s2 <= 1000000 and 0 <= s3 <= 1000000
    pre: 0 <= d1 <= 1500000 and 0 <= d2 <= 1500000 and 0 <= d3 <= 1500000QUICKPRE
    post: _
    """
    return three_callers(s1, d1, s2, d2, s3, d3)
'''.replace("QUICKPRE", "\n    pre: s1 == 0 and d3 == 1000" if quick else ""), {"callers": 3, "quick_fixes": "s1 = 0, d3 = 1 ms" if quick else None}, cap=1200)
    for kind in ("ok", "pending"):
        name = f"tester_present_{kind}"
        add(name, f'''
def {name}(s1: int, d1: int, d1b: int, iv: int, dtp: int) -> bool:
    """
    pre: 0 <= s1 <= 1500000
    pre: 0 <= d1 <= 1500000 and 0 <= d1b <= 1500000
    pre: 500000 <= iv <= 2000000
    pre: 0 <= dtp <= 1500000{"" if not quick else chr(10) + "    pre: dtp == 1000" + (chr(10) + "    pre: d1b == 300000" if kind == "pending" else "")}
    post: _
    """
    return with_tester_present({kind!r}, s1, d1, d1b, iv, dtp)
''', {"callers": "1 + real ECU._tester_present_worker (cancelled at 2.5 s)", "caller_script": kind, "interval": "symbolic 0.5..2 s"}, cap=1200)
    with open(path, "w") as f:
        f.write("\n".join(src))
    return obs
