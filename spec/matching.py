"""Reference rules for request/response matching (C03), written from the property statement and ISO 14229-1 echo rules
(DESIGN.md Appendix A).  Never imports gallia.  Works on symbolic bytes."""
from spec import responses

ACCEPT, MISMATCH, MALFORMED = "accept", "mismatch", "malformed"

NRCS = frozenset(
    [0x10, 0x11, 0x12, 0x13, 0x14, 0x21, 0x22, 0x24, 0x25, 0x26, 0x31, 0x33, 0x34, 0x35, 0x36, 0x37, 0x38, 0x39, 0x3A]
    + list(range(0x50, 0x5E)) + [0x70, 0x71, 0x72, 0x73, 0x78, 0x7E, 0x7F] + list(range(0x81, 0x8E)) + [0x8F]
    + list(range(0x90, 0x95)) + list(range(0xF0, 0xFF))
)

def _ranges(vals):
    out, vals = [], sorted(vals)
    lo = prev = vals[0]
    for v in vals[1:]:
        if v != prev + 1:
            out.append((lo, prev))
            lo = v
        prev = v
    out.append((lo, prev))
    return tuple(out)


NRC_RANGES = _ranges(NRCS)


def is_nrc(x):
    """membership by comparisons only (set membership would hash, i.e. realise, a symbolic value)"""
    for lo, hi in NRC_RANGES:
        if lo <= x <= hi:
            return True
    return False


TYPED_SIDS = (0x10, 0x11, 0x27, 0x28, 0x3E, 0x85, 0x22, 0x23, 0x2C, 0x2E, 0x3D, 0x14, 0x19, 0x2F, 0x31, 0x34, 0x35, 0x36, 0x37)
READ_DTC_TYPE0 = (0x01, 0x02, 0x0F, 0x11, 0x12, 0x13)
READ_DTC_TYPE6 = (0x0A, 0x0B, 0x0C, 0x0D, 0x0E, 0x15)


def req_wf(q):  # noqa: C901, PLR0911, PLR0912
    """True: well-formed request of a service gallia models; False: not; None: ISO and gallia's documentation disagree
    or are silent (nothing is asserted about the typed/raw treatment)."""
    n = len(q)
    sid = q[0]
    if sid in (0x10, 0x11):
        return n == 2
    if sid == 0x27:
        if n < 2:
            return False
        return n >= 2 if q[1] % 2 == 1 else n >= 3
    if sid == 0x28:
        return n == 3
    if sid == 0x3E:
        return n == 2 and q[1] % 0x80 == 0
    if sid == 0x85:
        return n >= 2
    if sid == 0x22:
        return n >= 3 and (n - 1) % 2 == 0
    if sid == 0x23:
        if n < 2:
            return False
        wa, ws = q[1] % 16, q[1] // 16
        return wa >= 1 and ws >= 1 and n == 2 + wa + ws
    if sid == 0x2C:
        if n < 2:
            return False
        sf = q[1] % 0x80
        if sf == 1:
            return n >= 8 and n % 4 == 0
        if sf == 2:
            if n < 5:
                return False
            wa, ws = q[4] % 16, q[4] // 16
            return wa >= 1 and ws >= 1 and n >= 5 + wa + ws and (n - 5) % (wa + ws) == 0
        if sf == 3:
            return n in (2, 4)
        return False
    if sid == 0x2E:
        return n >= 4
    if sid == 0x3D:
        if n < 2:
            return False
        wa, ws = q[1] % 16, q[1] // 16
        if wa < 1 or ws < 1 or n < 2 + wa + ws:
            return False
        return True if n >= 3 + wa + ws else None
    if sid == 0x14:
        return n == 4
    if sid == 0x19:
        if n < 2:
            return False
        sf = q[1] % 0x80
        if sf in READ_DTC_TYPE0:
            return n == 3
        if sf in READ_DTC_TYPE6:
            return n == 2
        if sf == 6:
            return n == 6
        return False
    if sid == 0x2F:
        return n >= 4
    if sid == 0x31:
        if n < 2:
            return False
        return (q[1] % 0x80) in (1, 2, 3) and n >= 4
    if sid in (0x34, 0x35):
        if n < 3:
            return False
        wa, ws = q[2] % 16, q[2] // 16
        return wa >= 1 and ws >= 1 and n == 3 + wa + ws
    if sid == 0x36:
        return n >= 2
    if sid == 0x37:
        return n >= 1
    return False


def _prefix(pairs, have):
    """pairs: list of (reply index, expected value).  False if an available byte differs, True if all are
    available and equal, None if the available ones agree but the reply is too short to carry the whole echo."""
    missing = False
    for idx, val in pairs:
        if idx < have[0]:
            if have[1][idx] != val:
                return False
        else:
            missing = True
    return None if missing else True


def echo(q, p):  # noqa: C901, PLR0911
    """For a well-formed request q and a positive reply p of the same service: does p echo q's primary identifier?"""
    sid = q[0]
    h = (len(p), p)
    if sid in (0x10, 0x11, 0x27, 0x28, 0x3E, 0x85, 0x19, 0x2C):
        return _prefix([(1, q[1] % 0x80)], h)
    if sid in (0x22, 0x2E, 0x2F):
        return _prefix([(1, q[1]), (2, q[2])], h)
    if sid == 0x31:
        return _prefix([(1, q[1] % 0x80), (2, q[2]), (3, q[3])], h)
    if sid == 0x36:
        return _prefix([(1, q[1])], h)
    if sid == 0x3D:
        wa, ws = q[1] % 16, q[1] // 16
        return _prefix([(i, q[i]) for i in range(1, 2 + wa + ws)], h)
    if sid == 0x23:
        wa, ws = q[1] % 16, q[1] // 16
        size = 0
        for i in range(ws):
            size = size * 256 + q[2 + wa + i]
        return len(p) - 1 == size
    return True  # 0x14, 0x34, 0x35, 0x37: service id only


def expected(q, p):  # noqa: C901, PLR0911, PLR0912
    """Set of admissible outcomes of matching reply bytes p against request bytes q."""
    sid = q[0]
    if p[0] == 0x7F:
        if len(p) < 2:
            return {MISMATCH, MALFORMED}
        if p[1] != sid:
            return {MISMATCH}
        if len(p) == 3 and is_nrc(p[2]):
            return {ACCEPT}
        return {MALFORMED}
    if p[0] != sid + 0x40:
        return {MISMATCH}
    wf = req_wf(q)
    if wf is not True:
        return {ACCEPT, MISMATCH, MALFORMED}  # raw / undecodable request: only 'other service => mismatch' is fixed
    sp = responses.lookup(p)
    e = echo(q, p)
    if sp is None:  # ISO sub-function gallia has no layout for: kept raw, matched on the echo
        if e is None:
            return {ACCEPT, MISMATCH, MALFORMED}
        return {ACCEPT} if e else {MISMATCH}
    ok = sp[0]
    if ok:
        if e is None:
            return {ACCEPT, MISMATCH}
        return {ACCEPT} if e else {MISMATCH}
    if e is False:
        return {MISMATCH, MALFORMED}
    return {MALFORMED}
