"""Reference for C09: sessions enterable from the default session by at most `depth` successive session changes."""


def reachable(nodes, edges, depth):
    """edges: (from, to) -> truth value (may be symbolic).  Returns the set of sessions reachable by 1..depth changes."""
    seen = set()
    frontier = {1}
    for _ in range(depth):
        nxt = set()
        for s in frontier:
            for t in nodes:
                if edges.get((s, t), False):
                    nxt.add(t)
        seen |= nxt
        frontier = nxt
    return seen
