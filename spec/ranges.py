"""Reference semantics of gallia's range expressions (C20), written from the documentation.  Never imports gallia.
A shape is a template over number tokens A..F; `expand` evaluates it with concrete/symbolic integers."""


def _piece(piece, env):
    """'A' or 'A-B' -> set of ints"""
    def val(tok):
        return env[tok] if tok in env else int(tok, 0)

    if "-" in piece:
        a, b = piece.split("-")
        lo, hi = val(a), val(b)
        out = set()
        v = lo
        while v <= hi:
            out.add(v)
            v += 1
        return out
    return {val(piece)}


def expand_1d(template, env):
    """'A-B,C' -> sorted union"""
    out = set()
    for piece in template.replace(" ", ",").split(","):
        if piece:
            out |= _piece(piece, env)
    return sorted(out)


def expand_2d(template, env):
    """'A-B:C D:E F' -> {outer: sorted inner | None}; a bare outer key means 'all' (None) and wins regardless of order"""
    res = {}
    bare = set()
    for elem in template.split(" "):
        if not elem:
            continue
        if ":" in elem:
            o, i = elem.split(":")
            outer = set()
            for p in o.split(","):
                outer |= _piece(p, env)
            inner = set()
            for p in i.split(","):
                inner |= _piece(p, env)
            for x in outer:
                res.setdefault(x, set())
                res[x] |= inner
        else:
            for p in elem.split(","):
                for x in _piece(p, env):
                    bare.add(x)
                    res.setdefault(x, set())
    return {x: (None if x in bare else sorted(res[x])) for x in sorted(res)}
