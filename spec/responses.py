"""Reference layouts of UDS responses, written from ISO 14229-1 (DESIGN.md Appendix A) -- never imports gallia.
For a byte string p (p[0] = response id) `lookup(p)` returns None when ISO defines no typed layout gallia claims to
model (-> raw / reject expected) or (well_formed, fields) where `fields` maps the public attribute names of gallia's
response objects to the value ISO places at that position.  All functions work on symbolic bytes."""


def u(p, i, n):
    v = 0
    for k in range(n):
        v = v * 256 + p[i + k]
    return v


TYPE0 = (0x01, 0x11, 0x12)
TYPE1 = (0x02, 0x0A, 0x0F, 0x13, 0x15)
TYPE1_SINGLE = (0x0B, 0x0C, 0x0D, 0x0E)


def _records(p, start):
    out = []
    i = start
    while i + 4 <= len(p):
        out.append((u(p, i, 3), p[i + 3]))
        i += 4
    return out


def lookup(p):  # noqa: C901, PLR0911, PLR0912
    n = len(p)
    rid = p[0]
    if rid == 0x7F:
        return (n == 3, {"request_service_id": p[1], "response_code": p[2]} if n == 3 else {})
    if rid == 0x50:
        ok = n >= 2 and p[1] <= 0x7F
        return (ok, {"diagnostic_session_type": p[1], "session_parameter_record": p[2:]} if ok else {})
    if rid == 0x51:
        ok = 2 <= n <= 3 and p[1] <= 0x7F
        return (ok, {"reset_type": p[1], "power_down_time": (p[2] if n == 3 else None)} if ok else {})
    if rid == 0x67:
        ok = n >= 2 and p[1] <= 0x7F
        return (ok, {"security_access_type": p[1], "security_seed": p[2:]} if ok else {})
    if rid == 0x68:
        ok = n == 2 and p[1] <= 0x7F
        return (ok, {"control_type": p[1]} if ok else {})
    if rid == 0xC5:
        ok = n == 2 and p[1] <= 0x7F
        return (ok, {"dtc_setting_type": p[1]} if ok else {})
    if rid == 0x7E:
        ok = n == 2 and p[1] == 0
        return (ok, {})
    if rid == 0x62:
        ok = n >= 4
        return (ok, {"data_identifiers": [u(p, 1, 2)], "data_records": [p[3:]]} if ok else {})
    if rid == 0x63:
        ok = n >= 2
        return (ok, {"data_record": p[1:]} if ok else {})
    if rid == 0x6C:
        if n < 2:
            return (False, {})
        sf = p[1]
        if sf > 0x7F:  # a response never carries the suppress bit: malformed, not an unknown sub-function
            return (False, {})
        if sf in (1, 2):
            ok = n == 4
            return (ok, {"dynamically_defined_data_identifier": u(p, 2, 2)} if ok else {})
        if sf == 3:
            ok = n in (2, 4)
            return (ok, {"dynamically_defined_data_identifier": (u(p, 2, 2) if n == 4 else None)} if ok else {})
        return None
    if rid == 0x6E:
        ok = n == 3
        return (ok, {"data_identifier": u(p, 1, 2)} if ok else {})
    if rid == 0x7D:
        if n < 2:
            return (False, {})
        wa = p[1] % 16
        ws = p[1] // 16
        ok = wa >= 1 and ws >= 1 and n == 2 + wa + ws
        return (ok, {"address_and_length_format_identifier": p[1], "memory_address": u(p, 2, wa),
                     "memory_size": u(p, 2 + wa, ws)} if ok else {})
    if rid == 0x54:
        return (n == 1, {})
    if rid == 0x59:
        if n < 2:
            return (False, {})
        sf = p[1]
        if sf > 0x7F:  # a response never carries the suppress bit: malformed, not an unknown sub-function
            return (False, {})
        if sf in TYPE0:
            ok = n == 6 and p[3] <= 3
            return (ok, {"dtc_status_availability_mask": p[2], "dtc_format_identifier": p[3], "dtc_count": u(p, 4, 2)} if ok else {})
        if sf in TYPE1 or sf in TYPE1_SINGLE:
            ok = n >= 3 and (n - 3) % 4 == 0 and (sf in TYPE1 or n <= 7)
            return (ok, {"dtc_status_availability_mask": p[2], "dtc_and_status_record.items()": _records(p, 3)} if ok else {})
        if sf == 0x06:
            ok = n >= 6
            if not ok:
                return (False, {})
            f = {"dtc_and_status_record": (u(p, 2, 3), p[5])}
            f["dtc_ext_data_records"] = {p[6]: p[7:]} if n > 6 else {}
            return (True, f)
        return None
    if rid == 0x6F:
        ok = n >= 4
        return (ok, {"data_identifier": u(p, 1, 2), "control_status_record": p[3:]} if ok else {})
    if rid == 0x71:
        if n < 2:
            return (False, {})
        sf = p[1]
        if sf > 0x7F:  # a response never carries the suppress bit: malformed, not an unknown sub-function
            return (False, {})
        if sf in (1, 2, 3):
            ok = n >= 4
            return (ok, {"routine_control_type": sf, "routine_identifier": u(p, 2, 2), "routine_status_record": p[4:]} if ok else {})
        return None
    if rid in (0x74, 0x75):
        if n < 2:
            return (False, {})
        k = p[1] // 16
        ok = p[1] % 16 == 0 and k >= 1 and n == 2 + k
        return (ok, {"length_format_identifier": p[1], "max_number_of_block_length": u(p, 2, k)} if ok else {})
    if rid == 0x76:
        ok = n >= 2
        return (ok, {"block_sequence_counter": p[1], "transfer_response_parameter_record": p[2:]} if ok else {})
    if rid == 0x77:
        return (True, {"transfer_response_parameter_record": p[1:]})
    return None


TYPED_IDS = (0x7F, 0x50, 0x51, 0x67, 0x68, 0xC5, 0x7E, 0x62, 0x63, 0x6C, 0x6E, 0x7D, 0x54, 0x59, 0x6F, 0x71,
             0x74, 0x75, 0x76, 0x77)
