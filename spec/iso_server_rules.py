"""General server response behaviour of ISO 14229-1 as stated by property C13.  Never imports gallia.
model: session -> {service id (int) -> list of sub-functions | None}"""
from spec import matching

NRC_SNS, NRC_SFNS, NRC_IMLOIF, NRC_SFNSIAS, NRC_SNSIAS, NRC_GR = 0x11, 0x12, 0x13, 0x7E, 0x7F, 0x10


class Sw:
    """behaviour switches, all on by default"""

    def __init__(self, off=()):
        self.service_not_supported = "default_response_if_service_not_supported" not in off
        self.missing_sub_function = "default_response_if_missing_sub_function" not in off
        self.sub_function_not_supported = "default_response_if_sub_function_not_supported" not in off
        self.incorrect_format = "default_response_if_incorrect_format" not in off
        self.session_change = "default_response_if_session_change" not in off
        self.session_read = "default_response_if_session_read" not in off
        self.tester_present = "default_response_if_tester_present" not in off
        self.none = "default_response_if_none" not in off
        self.suppress = "default_response_if_suppress" not in off


def expected(model, session, req, sw):  # noqa: C901, PLR0911, PLR0912
    """-> ("nrc", code) | ("positive", bytes) | ("handler", None) | ("unconstrained", None)"""
    sid = req[0]
    here = model[session]
    known_somewhere = False
    is_sf = False
    for m in model.values():
        if sid in m:
            known_somewhere = True
            if m[sid] is not None:
                is_sf = True
    if sid not in here:
        if sw.service_not_supported:
            return ("nrc", NRC_SNSIAS if known_somewhere else NRC_SNS)
        return ("unconstrained", None)  # the statement does not say how an unsupported service is treated without rule 1
    if is_sf and len(req) < 2:
        if sw.missing_sub_function:
            return ("nrc", NRC_IMLOIF)
        if sw.incorrect_format:
            return ("nrc", NRC_IMLOIF)  # a one byte request of a sub-function service is also unparsable (rule 4)
        return ("unconstrained", None)
    if is_sf and sid != 0x31 and sw.sub_function_not_supported:
        sf = req[1] % 0x80
        if sf not in here[sid]:
            other = False
            for s, m in model.items():
                if s != session and sid in m and m[sid] is not None and sf in m[sid]:
                    other = True
            return ("nrc", NRC_SFNSIAS if other else NRC_SFNS)
    wf = matching.req_wf(req)
    if wf is False:
        if sw.incorrect_format:
            return ("nrc", NRC_IMLOIF)
        return ("unconstrained", None)
    if wf is None:
        return ("unconstrained", None)
    if sid == 0x10 and sw.session_change:
        return ("positive", bytes([0x50, req[1] % 0x80]))
    if sid == 0x22 and len(req) == 3 and req[1] == 0xF1 and req[2] == 0x86 and sw.session_read:
        return ("positive", bytes([0x62, 0xF1, 0x86, session]))
    if sid == 0x3E and sw.tester_present:
        return ("positive", bytes([0x7E, 0x00]))
    return ("handler", None)


def suppressed(req, is_sf_request, sw):
    return sw.suppress and is_sf_request and len(req) >= 2 and req[1] >= 0x80


def state_after(session, level, req, reply_is_positive, pos_sid):
    """session / security level after a reply; reply_is_positive with response id pos_sid (0x50, 0x67, 0x51, ...)"""
    if not reply_is_positive:
        return session, level
    if pos_sid == 0x50:
        return req[1] % 0x80, None
    if pos_sid == 0x51:
        return 1, None
    if pos_sid == 0x67 and (req[1] % 0x80) % 2 == 0:
        return session, (req[1] % 0x80) - 1
    return session, level
