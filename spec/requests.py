"""Reference layouts of UDS requests (ISO 14229-1, DESIGN.md Appendix A).  Never imports gallia.

`shapes(tier)` yields one dict per (request kind, concrete shape): the harness generator turns each into a
CrossHair obligation.  All snippets are *source text* evaluated inside the generated harness where
`S` is gallia's service module and B/U/REC are the reference encoder helpers below.

keys: cls      gallia class name (public API; a kind a user can construct)
      shape    short tag
      params   list of (name, type, lo, hi)   -- symbolic harness arguments with their documented range
      blens    dict name -> length for bytes params
      ctor     constructor call source (positional/keyword arguments exactly as documented)
      expect   reference encoding (bytes expression)
      fields   attr -> expression: public fields of the constructed object
      dyn      attr -> expression: fields of the object the *dynamic parser* must return (same service);
               defaults to `fields`
      sid      service id
      extra_pre  additional preconditions (source)
"""


def B(*vals):
    return bytes(list(vals))


def U(v, n):
    """big-endian n-byte encoding of v as a bytes object (works on symbolic ints: division by constants only)."""
    out = []
    for i in range(n):
        out.append((v // (256 ** (n - 1 - i))) % 256)
    return bytes(out)


def N(b):
    """big-endian value of a bytes object (linear in the byte values)."""
    v = 0
    for x in b:
        v = v * 256 + x
    return v


def SF(sf, spr):
    return sf + (0x80 if spr else 0)


def _sfreq(cls, sid, field, extra_pre=(), lo=0, hi=0x7F):
    return dict(cls=cls, shape="sf", sid=sid, params=[("sf", "int", lo, hi), ("spr", "bool", None, None)],
                ctor=f"sf, spr", expect=f"B({sid}, SF(sf, spr))", fields={field: "sf", "suppress_response": "spr"},
                extra_pre=list(extra_pre))


READ_DTC_TYPE0 = {
    "ReportNumberOfDTCByStatusMaskRequest": 0x01, "ReportDTCByStatusMaskRequest": 0x02,
    "ReportMirrorMemoryDTCByStatusMaskRequest": 0x0F, "ReportNumberOfMirrorMemoryDTCByStatusMaskRequest": 0x11,
    "ReportNumberOfEmissionsRelatedOBDDTCByStatusMaskRequest": 0x12, "ReportEmissionsRelatedOBDDTCByStatusMaskRequest": 0x13,
}
READ_DTC_TYPE6 = {
    "ReportSupportedDTCRequest": 0x0A, "ReportFirstTestFailedDTCRequest": 0x0B, "ReportFirstConfirmedDTCRequest": 0x0C,
    "ReportMostRecentFirstTestFailedDTCRequest": 0x0D, "ReportMostRecentConfirmedDTCRequest": 0x0E,
    "ReportDTCWithPermanentStatusRequest": 0x15,
}
ROUTINE = {"StartRoutineRequest": 1, "StopRoutineRequest": 2, "RequestRoutineResultsRequest": 3}
IOCTL_CONV = {"ReturnControlToECURequest": 0, "ResetToDefaultRequest": 1, "FreezeCurrentStateRequest": 2}


def shapes(tier):  # noqa: C901, PLR0912, PLR0915
    quick = tier == "quick"
    rec_lens = (0, 1, 3) if quick else (0, 1, 2, 3, 4, 6, 8)
    rec1_lens = tuple(n for n in rec_lens if n >= 1)
    groups = (1, 2) if quick else (1, 2, 3)
    widths = [(1, 1), (4, 2), (15, 15), (1, 15), (15, 1)] if quick else \
        [(a, s) for a in (1, 2, 3, 4, 8, 15) for s in (1, 2, 4, 15)]
    out = []
    add = out.append

    add(_sfreq("DiagnosticSessionControlRequest", 0x10, "diagnostic_session_type"))
    add(_sfreq("ECUResetRequest", 0x11, "reset_type"))
    for n in rec_lens:
        add(dict(cls="RequestSeedRequest", shape=f"rec{n}", sid=0x27,
                 params=[("sf", "int", 0, 0x7F), ("rec", "bytes", None, None), ("spr", "bool", None, None)], blens={"rec": n},
                 extra_pre=["sf % 2 == 1"], ctor="sf, rec, spr", expect="B(0x27, SF(sf, spr)) + rec",
                 fields={"security_access_type": "sf", "security_access_data_record": "rec", "suppress_response": "spr"}))
    for n in rec1_lens:
        add(dict(cls="SendKeyRequest", shape=f"rec{n}", sid=0x27,
                 params=[("sf", "int", 0, 0x7F), ("rec", "bytes", None, None), ("spr", "bool", None, None)], blens={"rec": n},
                 extra_pre=["sf % 2 == 0"], ctor="sf, rec, spr", expect="B(0x27, SF(sf, spr)) + rec",
                 fields={"security_access_type": "sf", "security_key": "rec", "suppress_response": "spr"}))
    add(dict(cls="CommunicationControlRequest", shape="sf", sid=0x28,
             params=[("sf", "int", 0, 0x7F), ("ct", "int", 0, 0xFF), ("spr", "bool", None, None)],
             ctor="sf, ct, spr", expect="B(0x28, SF(sf, spr), ct)",
             fields={"control_type": "sf", "communication_type": "ct", "suppress_response": "spr"}))
    add(dict(cls="TesterPresentRequest", shape="sf", sid=0x3E, params=[("spr", "bool", None, None)],
             ctor="spr", expect="B(0x3E, SF(0, spr))", fields={"suppress_response": "spr"}))
    for n in rec_lens:
        add(dict(cls="ControlDTCSettingRequest", shape=f"rec{n}", sid=0x85,
                 params=[("sf", "int", 0, 0x7F), ("rec", "bytes", None, None), ("spr", "bool", None, None)], blens={"rec": n},
                 ctor="sf, rec, spr", expect="B(0x85, SF(sf, spr)) + rec",
                 fields={"dtc_setting_type": "sf", "dtc_setting_control_option_record": "rec", "suppress_response": "spr"}))
    # ReadDataByIdentifier: one id as int, k ids as list
    add(dict(cls="ReadDataByIdentifierRequest", shape="int", sid=0x22, params=[("d0", "int", 0, 0xFFFF)],
             ctor="d0", expect="B(0x22) + U(d0, 2)", fields={"data_identifiers": "[d0]"}))
    for k in groups:
        ds = [f"d{i}" for i in range(k)]
        add(dict(cls="ReadDataByIdentifierRequest", shape=f"k{k}", sid=0x22, params=[(d, "int", 0, 0xFFFF) for d in ds],
                 ctor="[" + ", ".join(ds) + "]", expect="B(0x22) + " + " + ".join(f"U({d}, 2)" for d in ds),
                 fields={"data_identifiers": "[" + ", ".join(ds) + "]"}))
    # memory services with explicit format
    for wa, ws in widths:
        alfid = ws * 16 + wa
        mem_params = [("ab", "bytes", None, None), ("sb", "bytes", None, None)]
        mb = {"ab": wa, "sb": ws}
        add(dict(cls="ReadMemoryByAddressRequest", shape=f"w{wa}_{ws}", sid=0x23, params=mem_params, blens=mb,
                 ctor=f"N(ab), N(sb), {alfid}", expect=f"B(0x23, {alfid}) + ab + sb",
                 fields={"memory_address": "N(ab)", "memory_size": "N(sb)", "address_and_length_format_identifier": str(alfid)}))
        for n in (1, 2) if quick else (1, 2, 4):
            add(dict(cls="WriteMemoryByAddressRequest", shape=f"w{wa}_{ws}_rec{n}", sid=0x3D,
                     params=mem_params + [("rec", "bytes", None, None)], blens=dict(mb, rec=n),
                     ctor=f"N(ab), rec, N(sb), {alfid}", expect=f"B(0x3D, {alfid}) + ab + sb + rec",
                     fields={"memory_address": "N(ab)", "memory_size": "N(sb)", "data_record": "rec",
                             "address_and_length_format_identifier": str(alfid)}))
        for cls, sid in (("RequestDownloadRequest", 0x34), ("RequestUploadRequest", 0x35)):
            # (cm << 4) | em on two symbolic ints is realised value by value by the engine (256 combinations per path
            # class): one nibble is symbolic per obligation, the other concrete; both symbolic only in the thorough tier
            variants = [("cmsym", [("cm", "int", 0, 15)], "cm", "10"), ("emsym", [("em", "int", 0, 15)], "5", "em")]
            if not quick and (wa, ws) in [(1, 1), (4, 2)]:
                variants.append(("both", [("cm", "int", 0, 15), ("em", "int", 0, 15)], "cm", "em"))
            for tag, extra, cm, em in variants:
                add(dict(cls=cls, shape=f"w{wa}_{ws}_{tag}", sid=sid,
                         params=mem_params + extra, blens=mb,
                         ctor=f"N(ab), N(sb), {cm}, {em}, {alfid}", expect=f"B({sid}, {cm} * 16 + {em}, {alfid}) + ab + sb",
                         fields={"memory_address": "N(ab)", "memory_size": "N(sb)", "compression_method": cm, "encryption_method": em,
                                 "address_and_length_format_identifier": str(alfid)}))
        if (wa, ws) in [(1, 1), (4, 2), (15, 15)] or not quick:
            for k in groups[:2]:
                ps = [("dd", "int", 0, 0xFFFF), ("spr", "bool", None, None)]
                bl = {}
                for i in range(k):
                    ps += [(f"ab{i}", "bytes", None, None), (f"sb{i}", "bytes", None, None)]
                    bl[f"ab{i}"] = wa
                    bl[f"sb{i}"] = ws
                al = "[" + ", ".join(f"N(ab{i})" for i in range(k)) + "]"
                sl = "[" + ", ".join(f"N(sb{i})" for i in range(k)) + "]"
                add(dict(cls="DefineByMemoryAddressRequest", shape=f"w{wa}_{ws}_k{k}", sid=0x2C, params=ps, blens=bl,
                         ctor=f"dd, {al}, {sl}, {alfid}, spr",
                         expect=f"B(0x2C, SF(2, spr)) + U(dd, 2) + B({alfid}) + " + " + ".join(f"ab{i} + sb{i}" for i in range(k)),
                         fields={"dynamically_defined_data_identifier": "dd", "memory_addresses": al, "memory_sizes": sl,
                                 "address_and_length_format_identifier": str(alfid), "suppress_response": "spr"}))
    # memory services with computed (minimal) format: address in the wa-byte band, size in the ws-byte band
    auto = [(1, 1), (2, 1), (3, 2)] if quick else [(1, 1), (2, 1), (3, 2), (4, 4), (8, 2), (15, 15)]
    for wa, ws in auto:
        alfid = ws * 16 + wa
        mem_params = [("ab", "bytes", None, None), ("sb", "bytes", None, None)]
        mb = {"ab": wa, "sb": ws}
        band = ([] if wa == 1 else ["ab[0] != 0"]) + ([] if ws == 1 else ["sb[0] != 0"])
        add(dict(cls="ReadMemoryByAddressRequest", shape=f"auto{wa}_{ws}", sid=0x23, params=mem_params, blens=mb, tags=["bitlen"],
                 band_pre=band, ctor="N(ab), N(sb)", expect=f"B(0x23, {alfid}) + ab + sb",
                 fields={"memory_address": "N(ab)", "memory_size": "N(sb)", "address_and_length_format_identifier": str(alfid)}))
        for cls, sid in (("RequestDownloadRequest", 0x34), ("RequestUploadRequest", 0x35)):
            add(dict(cls=cls, shape=f"auto{wa}_{ws}", sid=sid, params=mem_params, blens=mb, tags=["bitlen"], band_pre=band,
                     ctor="N(ab), N(sb)", expect=f"B({sid}, 0, {alfid}) + ab + sb",
                     fields={"memory_address": "N(ab)", "memory_size": "N(sb)", "compression_method": "0", "encryption_method": "0",
                             "address_and_length_format_identifier": str(alfid)}))
    for wa in (1, 2) if quick else (1, 2, 4):
        for n in (1, 2):
            add(dict(cls="WriteMemoryByAddressRequest", shape=f"auto{wa}_rec{n}", sid=0x3D, tags=["bitlen"],
                     params=[("ab", "bytes", None, None), ("rec", "bytes", None, None)], blens={"ab": wa, "rec": n},
                     band_pre=([] if wa == 1 else ["ab[0] != 0"]),
                     ctor="N(ab), rec", expect=f"B(0x3D, {16 + wa}) + ab + B({n}) + rec",
                     fields={"memory_address": "N(ab)", "memory_size": str(n), "data_record": "rec",
                             "address_and_length_format_identifier": str(16 + wa)}))
    # DynamicallyDefineDataIdentifier
    for k in groups:
        ps = [("dd", "int", 0, 0xFFFF), ("spr", "bool", None, None)]
        for i in range(k):
            ps += [(f"d{i}", "int", 0, 0xFFFF), (f"p{i}", "int", 0, 0xFF), (f"m{i}", "int", 0, 0xFF)]
        dl = "[" + ", ".join(f"d{i}" for i in range(k)) + "]"
        pl = "[" + ", ".join(f"p{i}" for i in range(k)) + "]"
        ml = "[" + ", ".join(f"m{i}" for i in range(k)) + "]"
        add(dict(cls="DefineByIdentifierRequest", shape=f"k{k}", sid=0x2C, params=ps, ctor=f"dd, {dl}, {pl}, {ml}, spr",
                 expect="B(0x2C, SF(1, spr)) + U(dd, 2) + " + " + ".join(f"U(d{i}, 2) + B(p{i}, m{i})" for i in range(k)),
                 fields={"dynamically_defined_data_identifier": "dd", "source_data_identifiers": dl,
                         "positions_in_source_data_record": pl, "memory_sizes": ml, "suppress_response": "spr"}))
    add(dict(cls="ClearDynamicallyDefinedDataIdentifierRequest", shape="id", sid=0x2C,
             params=[("dd", "int", 0, 0xFFFF), ("spr", "bool", None, None)], ctor="dd, spr",
             expect="B(0x2C, SF(3, spr)) + U(dd, 2)",
             fields={"dynamically_defined_data_identifier": "dd", "suppress_response": "spr"}))
    add(dict(cls="ClearDynamicallyDefinedDataIdentifierRequest", shape="all", sid=0x2C,
             params=[("spr", "bool", None, None)], ctor="None, spr", expect="B(0x2C, SF(3, spr))",
             fields={"dynamically_defined_data_identifier": "None", "suppress_response": "spr"}))
    for n in rec1_lens:
        add(dict(cls="WriteDataByIdentifierRequest", shape=f"rec{n}", sid=0x2E,
                 params=[("d0", "int", 0, 0xFFFF), ("rec", "bytes", None, None)], blens={"rec": n},
                 ctor="d0, rec", expect="B(0x2E) + U(d0, 2) + rec", fields={"data_identifier": "d0", "data_record": "rec"}))
    add(dict(cls="ClearDiagnosticInformationRequest", shape="g", sid=0x14, params=[("g", "int", 0, 0xFFFFFF)],
             ctor="g", expect="B(0x14) + U(g, 3)", fields={"group_of_dtc": "g"}))
    for cls, sf in READ_DTC_TYPE0.items():
        add(dict(cls=cls, shape="mask", sid=0x19, params=[("m", "int", 0, 0xFF), ("spr", "bool", None, None)],
                 ctor="m, spr", expect=f"B(0x19, SF({sf}, spr), m)", fields={"dtc_status_mask": "m", "suppress_response": "spr"}))
    for cls, sf in READ_DTC_TYPE6.items():
        add(dict(cls=cls, shape="plain", sid=0x19, params=[("spr", "bool", None, None)],
                 ctor="suppress_response=spr", expect=f"B(0x19, SF({sf}, spr))", fields={"suppress_response": "spr"}))
    add(dict(cls="ReportDTCExtDataRecordByDTCNumberRequest", shape="int", sid=0x19,
             params=[("dtc", "int", 0, 0xFFFFFF), ("rn", "int", 0, 0xFF), ("spr", "bool", None, None)],
             ctor="dtc, rn, spr", expect="B(0x19, SF(6, spr)) + U(dtc, 3) + B(rn)",
             fields={"dtc_mask_record": "dtc", "dtc_ext_data_record_number": "rn", "suppress_response": "spr"}))
    add(dict(cls="ReportDTCExtDataRecordByDTCNumberRequest", shape="bytes", sid=0x19,
             params=[("dtc", "bytes", None, None), ("rn", "int", 0, 0xFF), ("spr", "bool", None, None)], blens={"dtc": 3},
             ctor="dtc, rn, spr", expect="B(0x19, SF(6, spr)) + dtc + B(rn)",
             fields={"dtc_mask_record": "dtc[0] * 65536 + dtc[1] * 256 + dtc[2]", "dtc_ext_data_record_number": "rn",
                     "suppress_response": "spr"}))
    # InputOutputControlByIdentifier: option record + enable mask are not delimited: the concatenation is compared
    for n in rec1_lens:
        for m in (0, 1) if quick else (0, 1, 2):
            add(dict(cls="InputOutputControlByIdentifierRequest", shape=f"rec{n}_mask{m}", sid=0x2F,
                     params=[("d0", "int", 0, 0xFFFF), ("rec", "bytes", None, None), ("mask", "bytes", None, None)],
                     blens={"rec": n, "mask": m}, ctor="d0, rec, mask", expect="B(0x2F) + U(d0, 2) + rec + mask",
                     fields={"data_identifier": "d0", "control_option_record": "rec", "control_enable_mask_record": "mask"},
                     dyn={"data_identifier": "d0", "control_option_record+control_enable_mask_record": "rec + mask"},
                     own={"data_identifier": "d0", "control_option_record+control_enable_mask_record": "rec + mask"}))
    for cls, iop in IOCTL_CONV.items():
        for m in (0, 1) if quick else (0, 1, 2, 4):
            add(dict(cls=cls, shape=f"mask{m}", sid=0x2F, params=[("d0", "int", 0, 0xFFFF), ("mask", "bytes", None, None)],
                     blens={"mask": m}, ctor="d0, mask", expect=f"B(0x2F) + U(d0, 2) + B({iop}) + mask",
                     fields={"data_identifier": "d0", "control_option_record": f"B({iop})", "control_enable_mask_record": "mask"},
                     dyn={"data_identifier": "d0", "control_option_record+control_enable_mask_record": f"B({iop}) + mask"}))
    for n in rec1_lens:
        for m in (0, 1):
            add(dict(cls="ShortTermAdjustmentRequest", shape=f"rec{n}_mask{m}", sid=0x2F,
                     params=[("d0", "int", 0, 0xFFFF), ("rec", "bytes", None, None), ("mask", "bytes", None, None)],
                     blens={"rec": n, "mask": m}, ctor="d0, rec, mask", expect="B(0x2F) + U(d0, 2) + B(3) + rec + mask",
                     fields={"data_identifier": "d0", "control_option_record": "B(3) + rec", "control_enable_mask_record": "mask"},
                     dyn={"data_identifier": "d0", "control_option_record+control_enable_mask_record": "B(3) + rec + mask"},
                     own={"data_identifier": "d0", "control_option_record+control_enable_mask_record": "B(3) + rec + mask"},
                     no_own_from_pdu=False))
    for cls, sf in ROUTINE.items():
        for n in rec_lens:
            add(dict(cls=cls, shape=f"rec{n}", sid=0x31,
                     params=[("rid", "int", 0, 0xFFFF), ("rec", "bytes", None, None), ("spr", "bool", None, None)], blens={"rec": n},
                     ctor="rid, rec, spr", expect=f"B(0x31, SF({sf}, spr)) + U(rid, 2) + rec",
                     fields={"routine_identifier": "rid", "routine_control_option_record": "rec", "suppress_response": "spr",
                             "routine_control_type": str(sf)}))
    for n in rec_lens:
        add(dict(cls="TransferDataRequest", shape=f"rec{n}", sid=0x36, params=[("c", "int", 0, 0xFF), ("rec", "bytes", None, None)],
                 blens={"rec": n}, ctor="c, rec", expect="B(0x36, c) + rec",
                 fields={"block_sequence_counter": "c", "transfer_request_parameter_record": "rec"}))
        add(dict(cls="RequestTransferExitRequest", shape=f"rec{n}", sid=0x37, params=[("rec", "bytes", None, None)],
                 blens={"rec": n}, ctor="rec", expect="B(0x37) + rec", fields={"transfer_request_parameter_record": "rec"}))
    return out


KINDS = sorted({s["cls"] for s in shapes("thorough")})
