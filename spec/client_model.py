"""Reference state machine for one client request (C04), written from the property statement.  Never imports gallia.

Events (one per transport call): 0 timeout, 1 connection error, 2 empty read, 3 busyRepeatRequest, 4 responsePending,
5 mismatching reply, 6 malformed reply, 7 negative final reply, 8 positive final reply.  An exhausted script is silence."""

TIMEOUT, CONN, EMPTY, BUSY, PENDING, MISMATCH, MALFORMED, NEG, POS = range(9)


class Result:
    def __init__(self, outcome, writes, reconnects, reads, consumed):
        self.outcome = outcome  # "reply:<ev index>" | "missing" | "missing:conn" | "illegal:mismatch" | "illegal:malformed"
        #                        | "stuck" | "connloss-in-poll"
        self.writes = writes
        self.reconnects = reconnects
        self.reads = reads
        self.consumed = consumed


def run(script, max_retry, poll_limit, silence_limit):  # noqa: C901, PLR0912
    pos = 0
    writes = reconnects = reads = 0
    last = "missing"
    n = len(script)
    for attempt in range(max_retry + 1):
        writes += 1
        ev = script[pos] if pos < n else TIMEOUT
        idx = pos
        pos += 1
        if ev == TIMEOUT:
            last = "missing"
            continue
        if ev in (CONN, EMPTY):
            last = "missing:conn"
            if attempt < max_retry:
                reconnects += 1
            continue
        if ev == BUSY:
            if attempt >= max_retry:
                return Result("reply:" + str(idx), writes, reconnects, reads, pos)
            continue
        if ev == MISMATCH:
            return Result("illegal:mismatch", writes, reconnects, reads, pos)
        if ev == MALFORMED:
            return Result("illegal:malformed", writes, reconnects, reads, pos)
        if ev != PENDING:
            return Result("reply:" + str(idx), writes, reconnects, reads, pos)
        polls = 1
        silent = 0
        broke = False
        while True:  # no write in here, ever
            reads += 1
            ev = script[pos] if pos < n else TIMEOUT
            idx = pos
            pos += 1
            if ev == TIMEOUT:
                silent += 1
                if silent >= silence_limit:
                    last = "missing"
                    broke = True
                    break
                continue
            if ev in (CONN, EMPTY):
                return Result("connloss-in-poll", writes, reconnects, reads, pos)
            if ev == MISMATCH:
                return Result("illegal:mismatch", writes, reconnects, reads, pos)
            if ev == MALFORMED:
                return Result("illegal:malformed", writes, reconnects, reads, pos)
            silent = 0
            polls += 1
            if polls >= poll_limit:
                return Result("stuck", writes, reconnects, reads, pos)
            if ev != PENDING:
                return Result("reply:" + str(idx), writes, reconnects, reads, pos)
        if broke:
            continue
    return Result(last, writes, reconnects, reads, pos)
